"""C05 — membership tests agree with the set the domain expression denotes.

Decided: exact Boolean structure of `_contains` of union / cut / intersection /
product and their boundaries (truth table vs. set algebra), pull-back structure
of Translate / Rotate (pull-back ∘ push-forward = id), row-wise evaluation of
shape functions at points.join(params).  Not decided: the closed-form predicates
of the primitives, tolerances.
"""
from __future__ import annotations

import ast
from typing import Dict, List, Optional, Set, Tuple

from ..absdom import boolform as B
from ..absdom.motion import NotMotion, t_add, t_atom, t_show, t_subst, to_term
from ..flow import RAISE, attr_chain, dump, kwarg, paths
from ..repo import AnalysisError, ClassInfo, FuncInfo, Repo
from ..util import ends

EXPLANATION = (
    "Each `_contains` of the Boolean-operation classes is expanded (def-use) to a formula over in_a, in_b, on_a, on_b and "
    "compared with the set-algebra reference on every truth assignment that satisfies closedness (on_x => in_x) and genericity "
    "(not on both boundaries); Translate/Rotate pull-backs and the samplers' push-forwards are extracted as terms of a free "
    "module with operator words (matrix M, solve-inverse S) and composed to the identity; every shape-function call reachable "
    "from a primitive `_contains` must receive a value built from both the points and their parameter rows."
)
ASSUMPTIONS = [
    "operands are closed sets (boundary points belong to the set)",
    "points within the tolerance band of both operand boundaries are excluded (the property's own proviso)",
    "torch.linalg.solve(R, R x) = x (rotation matrices are invertible)",
]
OPS = "problem.domains.domainoperations"

REFERENCE = {
    # class -> (module, reference formula builder over atoms a,b,oa,ob)
    "UnionDomain": ("union", lambda a, b, oa, ob: B.disj(a, b), "A ∪ B: a ∨ b"),
    "CutDomain": ("cut", lambda a, b, oa, ob: B.conj(a, B.neg(b)), "A \\ B: a ∧ ¬b"),
    "IntersectionDomain": ("intersection", lambda a, b, oa, ob: B.conj(a, b), "A ∩ B: a ∧ b"),
    "ProductDomain": ("product", lambda a, b, oa, ob: B.conj(a, b), "A × B: a ∧ b"),
    "UnionBoundaryDomain": ("union", lambda a, b, oa, ob: B.disj(B.conj(oa, B.neg(b)), B.conj(ob, B.neg(a))), "∂(A∪B): (∂a∧¬b) ∨ (∂b∧¬a)"),
    "CutBoundaryDomain": ("cut", lambda a, b, oa, ob: B.disj(B.conj(oa, B.neg(b)), B.conj(ob, a)), "∂(A\\B): (∂a∧¬b) ∨ (∂b∧a)"),
    "IntersectionBoundaryDomain": ("intersection", lambda a, b, oa, ob: B.disj(B.conj(oa, b), B.conj(ob, a)), "∂(A∩B): (∂a∧b) ∨ (∂b∧a)"),
}


def closed_generic(a: Dict[str, bool]) -> bool:
    if a.get("on_a") and not a.get("in_a", True):
        return False
    if a.get("on_b") and not a.get("in_b", True):
        return False
    if a.get("on_a") and a.get("on_b"):
        return False
    return True


def closed_only(a: Dict[str, bool]) -> bool:
    if a.get("on_a") and not a.get("in_a", True):
        return False
    if a.get("on_b") and not a.get("in_b", True):
        return False
    return True


def operand_atom(recv: str) -> Optional[str]:
    """'self.domain_a' / 'self.domain.domain_a' / 'domain_a' (+ '.boundary') -> in_a / on_a"""
    parts = recv.split(".")
    on = False
    if parts and parts[-1] == "boundary":
        on = True
        parts = parts[:-1]
    if not parts or parts[-1] not in ("domain_a", "domain_b"):
        return None
    if parts[:-1] not in ([], ["self"], ["self", "domain"]):
        return None
    return ("on_" if on else "in_") + parts[-1][-1]


def membership_formula(fi: FuncInfo, rep=None, rule=None):
    """-> list of (formula, path) for every returning path of a `_contains`; raises NotBool"""
    out = []
    pts, prm = fi.params[1], fi.params[2] if len(fi.params) > 2 else None
    problems: List[str] = []

    def atom(node):
        if isinstance(node, ast.Call) and isinstance(node.func, ast.Attribute) and node.func.attr == "_contains":
            recv = attr_chain(node.func.value)
            name = operand_atom(recv or "")
            if name is None:
                return None
            a0 = kwarg(node, "points", 0)
            a1 = kwarg(node, "params", 1)
            if a0 is None or dump(a0) != pts:
                problems.append(f"{recv}._contains evaluated on `{dump(a0)}` instead of `{pts}`")
            if prm is not None and (a1 is None or dump(a1) != prm):
                problems.append(f"{recv}._contains receives params `{dump(a1)}` instead of `{prm}`")
            return B.var(name)
        if isinstance(node, ast.Call) and isinstance(node.func, ast.Attribute) and node.func.attr in ("reshape", "view", "bool", "clone") and isinstance(node.func.value, ast.AST):
            # reshape(-1, 1) keeps one value per row
            if node.func.attr in ("reshape", "view") and [dump(x) for x in node.args] not in (["-1", "1"], ["(-1, 1)"]):
                return None
            return B.from_ast(node.func.value, atom)
        return None

    for p in paths(fi.node):
        if p.ret is RAISE:
            continue
        if p.ret is None:
            raise B.NotBool("returns None")
        f = B.from_ast(p.ret, atom)
        out.append((f, p))
    return out, problems


def r1_truth_tables(repo: Repo, rep):
    R = rep.rule("R-C05-1", "_contains of union/cut/intersection/product and their boundaries equals the set-algebra formula on every "
                 "admissible truth assignment; operands are asked about the same points and params", floor=7,
                 why="any other Boolean structure gives a wrong answer for some point farther than the tolerance from the boundary")
    for cname, (mod, ref, txt) in REFERENCE.items():
        ci = repo.cls(f"{OPS}.{mod}.{cname}")
        fi = ci.methods.get("_contains")
        if fi is None:
            raise AnalysisError(f"{cname}._contains vanished")
        rep.saw(fi)
        try:
            forms, problems = membership_formula(fi)
        except B.NotBool as e:
            rep.undecided(R, fi.site(), fi.fq, f"Boolean combination of operand memberships ({txt})", str(e))
            continue
        if problems:
            rep.violation(R, fi.site(), fi.fq, "each operand is asked about the same points with the same parameter rows", "; ".join(sorted(set(problems))), problems[0])
            continue
        want = ref(B.var("in_a"), B.var("in_b"), B.var("on_a"), B.var("on_b"))
        for f, p in forms:
            is_b = "Boundary" in cname
            names = {"in_a", "in_b"} | ({"on_a", "on_b"} if is_b else set())
            extra = B.atoms(f) - names
            if extra:
                rep.violation(R, fi.site(p.ret_node), fi.fq, f"formula over {sorted(names)} only ({txt})", f"uses {sorted(extra)}: {B.show(f)}", B.show(f))
                continue
            ok, cex, n = B.equivalent(f, want, closed_generic, extra_atoms=names)
            rep.check(R, ok, fi.site(p.ret_node), fi.fq, f"≡ {txt} on all {n} admissible assignments",
                      f"{B.show(f)}" + ("" if ok else f"; differs at {cex}"), B.show(f))
            if ok and is_b:
                # tolerance independence: the boundary test of an operand is tolerant (isclose), its interior test is exact; for a point on
                # X's boundary (and not on the other one) the answer must not depend on X's own exact interior test
                dep = None
                for X, O in (("a", "b"), ("b", "a")):
                    for asg in B.assignments(names, None):
                        if not asg[f"on_{X}"] or asg[f"on_{O}"] or not asg[f"in_{X}"]:
                            continue
                        flipped = dict(asg)
                        flipped[f"in_{X}"] = False
                        if B.ev(f, asg) != B.ev(f, flipped):
                            dep = (X, {k: v for k, v in asg.items() if k != f"in_{X}"})
                            break
                    if dep:
                        break
                rep.check(R, dep is None, fi.site(p.ret_node), fi.fq, "a point the operand's (tolerant) boundary test accepts is not asked to pass that operand's exact interior test as well",
                          f"{B.show(f)}: for a point on ∂{dep[0]} the answer changes with in_{dep[0]} at {dep[1]}" if dep else "", f"needs in_{dep[0]} on ∂{dep[0]}" if dep else "")
    # product boundary = (∂A × B) ∪ (A × ∂B)
    pd = repo.cls(f"{OPS}.product.ProductDomain")
    bfi = pd.methods.get("boundary")
    if bfi is None:
        raise AnalysisError("ProductDomain.boundary vanished")
    rep.saw(bfi)
    for p in paths(bfi.node):
        if p.ret is RAISE:
            continue
        r = p.ret
        good = False
        if isinstance(r, ast.Call) and ends(attr_chain(r.func), "UnionDomain") and len(r.args) == 2:
            parts = []
            for a in r.args:
                if isinstance(a, ast.Call) and ends(attr_chain(a.func), "ProductDomain") and len(a.args) + len(a.keywords) == 2:
                    x = kwarg(a, "domain_a", 0)
                    y = kwarg(a, "domain_b", 1)
                    parts.append((dump(x), dump(y)))
            good = sorted(parts) == sorted([("self.domain_a.boundary", "self.domain_b"), ("self.domain_a", "self.domain_b.boundary")])
        rep.check(R, good, bfi.site(), bfi.fq, "∂(A×B) = (∂A × B) ∪ (A × ∂B), factors in order", dump(r), dump(r))


# --------------------------------------------------------------------- motions
def _motion_atom(points_name: Optional[str], x_names=()):
    def atom(node):
        n = node
        # strip shape-only methods
        while isinstance(n, ast.Call) and isinstance(n.func, ast.Attribute) and n.func.attr in ("reshape", "squeeze", "unsqueeze", "view"):
            n = n.func.value
        if isinstance(n, ast.Call):
            ch = attr_chain(n.func)
            if ch == "self.translate_fn":
                return t_atom("T")
            if ch == "self.rotate_around":
                return t_atom("C")
            if ch == "self.rotation_fn":
                return "M"
        if isinstance(n, ast.Attribute) and n.attr in ("as_tensor", "_t"):
            inner = n.value
            if isinstance(inner, ast.Subscript) and isinstance(inner.value, ast.Name) and inner.value.id == points_name:
                if "self.space" in dump(inner.slice):
                    return t_atom("Y")
            if isinstance(inner, ast.Call) and isinstance(inner.func, ast.Attribute) and inner.func.attr in ("sample_random_uniform", "sample_grid") and dump(inner.func.value) == "self.domain":
                return t_atom("X")
        if isinstance(n, ast.Name) and n.id in x_names:
            return t_atom("X")
        return None
    return atom


def motion_terms(repo: Repo, cname: str):
    """-> dict with pull term (in Y), list of (function, push term in X), and diagnostics"""
    ci = repo.cls(f"{OPS}.{'translate' if cname == 'Translate' else 'rotate'}.{cname}")
    res = {"class": ci, "pull": [], "push": [], "problems": []}
    cf = ci.methods.get("_contains")
    if cf is None:
        raise AnalysisError(f"{cname}._contains vanished")
    pts, prm = cf.params[1], cf.params[2]
    for p in paths(cf.node):
        if p.ret is RAISE:
            continue
        r = p.ret
        if not (isinstance(r, ast.Call) and dump(r.func) == "self.domain._contains"):
            res["problems"].append((cf, f"does not delegate to the inner domain: {dump(r)[:80]}"))
            continue
        a0, a1 = kwarg(r, "points", 0), kwarg(r, "params", 1)
        if a1 is None or dump(a1) != prm:
            res["problems"].append((cf, f"inner membership asked with params `{dump(a1)}`"))
        inner = a0
        if isinstance(inner, ast.Call) and ends(attr_chain(inner.func), "Points") and inner.args:
            sp = inner.args[1] if len(inner.args) > 1 else kwarg(inner, "space")
            if sp is None or dump(sp) not in ("self.space", "self.domain.space"):
                res["problems"].append((cf, f"pulled-back points labelled with `{dump(sp)}`"))
            inner = inner.args[0]
        try:
            res["pull"].append((cf, to_term(inner, _motion_atom(pts)), p))
        except NotMotion as e:
            res["problems"].append((cf, f"UNDECIDED {e}"))
        # shape functions evaluated row-wise
        for c in ast.walk(r):
            if isinstance(c, ast.Call) and attr_chain(c.func) in ("self.translate_fn", "self.rotate_around", "self.rotation_fn"):
                arg = dump(c.args[0]) if c.args else ""
                if not (pts in arg and prm in arg):
                    res["problems"].append((cf, f"{attr_chain(c.func)} evaluated on `{arg}` (needs the points joined with their params)"))
    # push-forwards
    if cname == "Translate":
        su = ci.methods.get("sample_random_uniform")
        if su is not None:
            for p in paths(su.node):
                if p.ret is RAISE:
                    continue
                r = p.ret
                val = r.args[0] if isinstance(r, ast.Call) and ends(attr_chain(r.func), "Points") and r.args else r
                try:
                    res["push"].append((su, to_term(val, _motion_atom(None)), p))
                except NotMotion as e:
                    res["problems"].append((su, f"UNDECIDED {e}"))
        tp = ci.methods.get("_translate_points")
        if tp is not None:
            xn = tp.params[1]
            for p in paths(tp.node):
                if p.ret is RAISE:
                    continue
                r = p.ret
                # strip the row replication `points.repeat(n_params, 1)`
                r = _strip_repeat(r)
                try:
                    res["push"].append((tp, to_term(r, _motion_atom(None, (xn,))), p))
                except NotMotion as e:
                    res["problems"].append((tp, f"UNDECIDED {e}"))
    else:
        rp = ci.methods.get("_rotate_points")
        if rp is None:
            res["problems"].append((cf, "UNDECIDED _rotate_points helper vanished"))
        else:
            xn = rp.params[2]
            for p in paths(rp.node):
                if p.ret is RAISE:
                    continue
                try:
                    res["push"].append((rp, to_term(p.ret, _motion_atom(None, (xn,))), p))
                except NotMotion as e:
                    res["problems"].append((rp, f"UNDECIDED {e}"))
    return res


def _strip_repeat(e: ast.AST) -> ast.AST:
    class T(ast.NodeTransformer):
        def visit_Call(self, node):
            self.generic_visit(node)
            if isinstance(node.func, ast.Attribute) and node.func.attr == "repeat" and isinstance(node.func.value, ast.Name):
                return node.func.value
            return node
    import copy
    return T().visit(copy.deepcopy(e))


def r2_pullback(repo: Repo, rep, rule_id="R-C05-2"):
    R = rep.rule(rule_id, "Translate/Rotate: `_contains` delegates to the inner domain on pulled-back points; pull-back ∘ sampler "
                 "push-forward = identity (same shape functions on both sides)", floor=6,
                 why="a translated/rotated domain is the inverse image; a sign or order error moves the set")
    for cname in ("Translate", "Rotate"):
        res = motion_terms(repo, cname)
        ci = res["class"]
        for fi, msg in res["problems"]:
            rep.saw(fi)
            if msg.startswith("UNDECIDED"):
                rep.undecided(R, fi.site(), fi.fq, "rigid-motion term extractable", msg[10:])
            else:
                rep.violation(R, fi.site(), fi.fq, "pull-back structure", msg, msg)
        expect_pull = t_add(t_atom("Y"), t_atom("T"), -1) if cname == "Translate" else None
        for fi, pull, p in res["pull"]:
            rep.saw(fi)
            for gi, push, q in res["push"]:
                rep.saw(gi)
                comp = t_subst(pull, "Y", push)
                rep.check(R, comp == t_atom("X"), gi.site(), f"{fi.fq} ∘ {gi.fq}", "pull-back(push-forward(x)) == x",
                          f"pull = {t_show(pull)}, push = {t_show(push)}, composition = {t_show(comp)}", f"{t_show(pull)} | {t_show(push)}")
        if not res["pull"] or not res["push"]:
            rep.undecided(R, ci.module.relpath, ci.fq, "pull-back and push-forward found", f"{len(res['pull'])} pull / {len(res['push'])} push terms")
        # the samplers feed the inner domain's samples into the push-forward
        for mname in ("sample_random_uniform", "sample_grid"):
            fi = ci.methods.get(mname)
            if fi is None:
                continue
            rep.saw(fi)
            for p in paths(fi.node):
                if p.ret is RAISE or p.ret is None:
                    continue
                txt = dump(p.ret)
                inner = f"self.domain.{mname}("
                rep.check(R, inner in txt, fi.site(), fi.fq, f"samples of the inner domain ({mname}) are moved", txt[:120], txt[:120])


# ---------------------------------------------------------------- R-C05-3
def shape_function_names(repo: Repo) -> Set[str]:
    dom = repo.cls("problem.domains.domain.Domain")
    names = set()
    for ci in repo.subclasses(dom):
        init = ci.methods.get("__init__")
        if init is None:
            continue
        for p in paths(init.node):
            for k, v in list(p.env.items()) + list(p.attrs.items()):
                if k.startswith("self.") and "transform_to_user_functions" in dump(v):
                    names.add(k[5:])
    names.add("side")  # IntervalSingleBoundaryPoint(side=<shape function of the interval>)
    return names


def r3_rowwise(repo: Repo, rep):
    R = rep.rule("R-C05-3", "every shape function reached from a primitive `_contains` is evaluated on points joined with their params "
                 "(never on params alone)", floor=12,
                 why="a parameter-dependent shape must be evaluated with each point's own parameter row, and shapes may depend on the point's other coordinates")
    dom = repo.cls("problem.domains.domain.Domain")
    shapes = shape_function_names(repo)
    rep.note(f"shape-function attributes: {sorted(shapes)}")
    prim_mods = ("point", "interval", "circle", "parallelogram", "triangle", "sphere")
    for ci in repo.subclasses(dom):
        if ci.module.name.split(".")[-1] not in prim_mods:
            continue
        fi = ci.methods.get("_contains")
        if fi is None:
            continue
        rep.saw(fi)
        roles = {fi.params[1]: {"P"}, fi.params[2]: {"Q"}}
        calls = _shape_calls(repo, ci, fi, roles, shapes, depth=0)
        if not calls:
            rep.undecided(R, fi.site(), fi.fq, "at least one shape-function evaluation", "none found")
            continue
        for site, what, role in calls:
            rep.check(R, role >= {"P", "Q"}, site, fi.fq, f"`{what}` receives a value built from the points and their params",
                      f"argument depends on {sorted(role) or 'neither'} (P = points, Q = params)", what)


def _rank(e: ast.AST, env_rank=None):
    """number of axes of a membership answer, when it can be told from the expression: 1 = (N,), 2 = (N, 1); None = not told"""
    if isinstance(e, ast.Call):
        ch = attr_chain(e.func) or ""
        name = e.func.attr if isinstance(e.func, ast.Attribute) else ch
        if name in ("reshape", "view") and isinstance(e.func, ast.Attribute):
            return len(e.args) if e.args and not any(isinstance(a, ast.Starred) for a in e.args) else None
        if name == "unsqueeze" and isinstance(e.func, ast.Attribute):
            r = _rank(e.func.value)
            return None if r is None else r + 1
        if name == "squeeze" and isinstance(e.func, ast.Attribute):
            r = _rank(e.func.value)
            return None if r is None else (r - 1 if e.args or e.keywords else None)
        if ch in ("torch.tensor", "torch.as_tensor", "torch.Tensor") and e.args:
            a = e.args[0]
            if isinstance(a, (ast.ListComp, ast.GeneratorExp)):
                return 1 if not isinstance(a.elt, (ast.List, ast.Tuple, ast.ListComp)) else 2
            if isinstance(a, (ast.List, ast.Tuple)) and a.elts:
                return 2 if all(isinstance(x, (ast.List, ast.Tuple)) for x in a.elts) else 1
            return None
        if ch in ("torch.zeros", "torch.ones", "torch.empty", "torch.full") and e.args:
            dims = e.args[0].elts if isinstance(e.args[0], (ast.Tuple, ast.List)) else [a for a in e.args if not isinstance(a, ast.Starred)]
            if isinstance(e.args[0], (ast.Tuple, ast.List)) or all(not isinstance(a, ast.Starred) for a in e.args):
                return len(dims)
            return None
        if ch in ("torch.logical_and", "torch.logical_or", "torch.logical_xor", "torch.isclose", "torch.where") and len(e.args) >= 2:
            rs = [_rank(a) for a in e.args[-2:]] if ch != "torch.where" else [_rank(a) for a in e.args]
            rs = [r for r in rs if r is not None]
            return max(rs) if rs else None
        if ch in ("torch.logical_not",) and e.args:
            return _rank(e.args[0])
        if ch in ("torch.sum", "torch.all", "torch.any", "torch.prod", "torch.norm", "torch.linalg.norm", "torch.max", "torch.min") and e.args:
            kd = kwarg(e, "keepdim")
            r = _rank(e.args[0])
            if kwarg(e, "dim", 1) is None and kwarg(e, "axis") is None:
                return None
            if r is None:
                return None
            return r if (kd is not None and dump(kd) == "True") else r - 1
        return None
    if isinstance(e, (ast.BinOp, ast.BoolOp, ast.Compare)):
        parts = [e.left, e.right] if isinstance(e, ast.BinOp) else (e.values if isinstance(e, ast.BoolOp) else [e.left] + e.comparators)
        rs = [r for r in (_rank(x) for x in parts) if r is not None]
        return max(rs) if rs else None
    if isinstance(e, ast.UnaryOp):
        return _rank(e.operand)
    return None


def r6_answer_shape(repo: Repo, rep):
    R = rep.rule("R-C05-6", "a membership answer is a column (N, 1): one truth value per input row that combines row-wise with the answers of other domains", floor=3,
                 why="an (N,) answer broadcasts against an (N, 1) answer to an (N, N) matrix in every union / cut / intersection / product")
    dom = repo.cls("problem.domains.domain.Domain")
    n = 0
    for ci in repo.subclasses(dom, strict=True):
        fi = ci.methods.get("_contains")
        if fi is None:
            continue
        for p in paths(fi.node, track_stores=True):
            if p.ret is RAISE or p.ret is None:
                continue
            r = p.ret
            while isinstance(r, ast.Call) and dump(r.func) == "__store__" and r.args:
                r = r.args[0]  # a buffer filled by index stores keeps its allocated shape
            rk = _rank(r)
            if rk is None:
                continue
            n += 1
            rep.saw(fi)
            rep.check(R, rk == 2, fi.site(p.ret_node), fi.fq, "the answer has two axes (N, 1)", f"{rk} axis/axes: {dump(p.ret)[:100]}", f"rank {rk}")
    if n == 0:
        rep.undecided(R, dom.module.relpath, dom.fq, "membership answers whose shape can be told", "none")


def r7_own_columns(repo: Repo, rep):
    R = rep.rule("R-C05-7", "analytic primitives read the coordinates of their own variables by name: points[:, list(self.space.keys())] — never the raw tensor of the Points they are given (polygon / mesh domains included)", floor=19,
                 why="query points of Boolean / product / moved expressions carry further columns (other factors, parameters) in any order: the raw tensor has other columns in these positions")
    dom = repo.cls("problem.domains.domain.Domain")
    prim_mods = ("point", "interval", "circle", "parallelogram", "triangle", "sphere", "shapely_polygon", "trimesh_polyhedron")
    for ci in repo.subclasses(dom):
        if ci.module.name.split(".")[-1] not in prim_mods:
            continue
        for mname in ("_contains", "normal"):
            fi = ci.methods.get(mname)
            if fi is None:
                continue
            pn = fi.params[1]
            raw, named = [], 0
            for p in paths(fi.node):
                for e in p.events:
                    if e.value is None:
                        continue
                    for n in ast.walk(e.value):
                        if isinstance(n, ast.Attribute) and n.attr in ("as_tensor", "_t"):
                            v = n.value
                            # points (possibly after the normal() input transformation) without a name selection
                            base = v
                            while isinstance(base, ast.Subscript) and getattr(base, "_tuple_elt", False):
                                base = base.value
                            if isinstance(v, ast.Name) and v.id == pn:
                                raw.append(dump(n))
                            elif isinstance(v, ast.Subscript) and getattr(v, "_tuple_elt", False) and isinstance(base, ast.Call) and "_transform_input_for_normals" in dump(base.func):
                                raw.append(dump(n)[:60])
                            elif isinstance(v, ast.Subscript) and ("self.space" in dump(v.slice) or any(isinstance(x, ast.Name) and "self.space" in dump(p.loopvars.get(x.id)) for x in ast.walk(v.slice))):
                                named += 1
            if not raw and not named:
                continue
            rep.saw(fi)
            rep.check(R, not raw and named > 0, fi.site(), fi.fq, "coordinates selected by list(self.space.keys())", f"raw tensor used: {sorted(set(raw))[:2]}", f"raw {sorted(set(raw))[:2]}")


def _fold(e: ast.AST) -> Optional[float]:
    """numeric value of a constant expression (torch.tensor(k) wrappers stripped)"""
    while isinstance(e, ast.Call) and attr_chain(e.func) in ("torch.tensor", "torch.as_tensor", "float") and e.args:
        e = e.args[0]
    if isinstance(e, ast.Constant) and isinstance(e.value, (int, float)) and not isinstance(e.value, bool):
        return float(e.value)
    if isinstance(e, ast.UnaryOp) and isinstance(e.op, (ast.USub, ast.UAdd)):
        v = _fold(e.operand)
        return None if v is None else (-v if isinstance(e.op, ast.USub) else v)
    if isinstance(e, ast.BinOp) and isinstance(e.op, (ast.Add, ast.Sub, ast.Mult, ast.Div, ast.Pow)):
        a, b = _fold(e.left), _fold(e.right)
        if a is None or b is None:
            return None
        try:
            return {ast.Add: a + b, ast.Sub: a - b, ast.Mult: a * b, ast.Div: a / b if b else None, ast.Pow: a ** b}[type(e.op)]
        except Exception:
            return None
    return None


SLACK = 1e-6  # ~8 float32 epsilons: the least absolute slack a test on coordinates computed in float32 needs to accept exact boundary points


def r8_side_tolerance(repo: Repo, rep, rule_id="R-C05-8"):
    R = rep.rule(rule_id, "boundary side tests compare computed coordinates with a constant c with an absolute slack of at least 1e-6: isclose needs "
                 "atol + rtol*|c| >= 1e-6 (the relative part vanishes at c = 0), range tests of barycentric coordinates admit [0 - t, 1 + t] with t within 100x of that tolerance", floor=18,
                 why="barycentric coordinates of the boundary sampler's own points are computed in float32 (resolution 1.2e-7): with the default "
                     "atol=1e-8 a comparison with 0 rejects them - not contained in their own boundary, no side found, NaN normal")
    bd = repo.cls("problem.domains.domain.BoundaryDomain")
    records = []  # (class name, roles of the function, compared constant, effective tolerance, function, node)
    ranges = []  # (class name, slack of a unit-range test, function, node)
    for ci in repo.subclasses(bd, strict=True):
        # own methods reachable from _contains / normal
        reach: Dict[str, FuncInfo] = {}
        work = [m for m in ("_contains", "normal") if ci.methods.get(m) is not None]
        role: Dict[str, Set[str]] = {}
        for m in work:
            role.setdefault(m, set()).add(m)
        while work:
            m = work.pop()
            fi = repo.resolve_method(ci, m)
            if fi is None or fi.cls is None or fi.cls.name in ("Domain", "BoundaryDomain") or m in reach:
                continue
            reach[m] = fi
            for n in ast.walk(fi.node):
                if isinstance(n, ast.Call) and isinstance(n.func, ast.Attribute) and attr_chain(n.func.value) == "self":
                    role.setdefault(n.func.attr, set()).update(role.get(m, ()))
                    work.append(n.func.attr)
        if not any(isinstance(n, ast.Call) and (attr_chain(n.func) or "").endswith("isclose") for fi in reach.values() for n in ast.walk(fi.node)):
            continue
        from ..util import deref, single_defs
        body_of = {m: deref(fi.node, single_defs(fi.node)) for m, fi in reach.items()}  # temporaries replaced by their values
        # barycentric names and constant helper arguments, propagated through the helper calls to a fix-point
        bary: Dict[str, Set[str]] = {m: set() for m in reach}
        consts: Dict[Tuple[str, str], Optional[Set[float]]] = {}
        for m, fi in reach.items():
            for n in ast.walk(body_of[m]):
                if isinstance(n, ast.Assign) and isinstance(n.value, ast.Call) and isinstance(n.value.func, ast.Attribute) and n.value.func.attr == "_solve_lgs":
                    for t in n.targets:
                        bary[m].update(x.id for x in ast.walk(t) if isinstance(x, ast.Name))

        def is_bary(e, m):
            if isinstance(e, ast.Name):
                return e.id in bary[m]
            if isinstance(e, ast.Subscript) and isinstance(e.value, ast.Call) and isinstance(e.value.func, ast.Attribute) and e.value.func.attr == "_solve_lgs":
                return True
            if isinstance(e, ast.BinOp) and isinstance(e.op, (ast.Add, ast.Sub)):
                return is_bary(e.left, m) and is_bary(e.right, m)
            return False
        # names bound by a loop over a literal sequence of tuples stand for each of the listed expressions
        alts: Dict[str, Dict[str, List[ast.AST]]] = {m: {} for m in reach}
        for m, fi in reach.items():
            single = {}
            for n in ast.walk(body_of[m]):
                if isinstance(n, ast.Assign) and len(n.targets) == 1 and isinstance(n.targets[0], ast.Name):
                    single.setdefault(n.targets[0].id, []).append(n.value)
            for n in ast.walk(body_of[m]):
                if not isinstance(n, (ast.For, ast.comprehension)):
                    continue
                it = n.iter
                if isinstance(it, ast.Name) and len(single.get(it.id, ())) == 1:
                    it = single[it.id][0]
                if not isinstance(it, (ast.Tuple, ast.List)):
                    continue
                tg = n.target
                names = [tg] if isinstance(tg, ast.Name) else list(tg.elts) if isinstance(tg, (ast.Tuple, ast.List)) else []
                for k, t in enumerate(names):
                    if not isinstance(t, ast.Name):
                        continue
                    if isinstance(tg, ast.Name):
                        alts[m][t.id] = list(it.elts)
                    elif all(isinstance(e, (ast.Tuple, ast.List)) and len(e.elts) == len(names) for e in it.elts):
                        alts[m][t.id] = [e.elts[k] for e in it.elts]

        def expand(a, m):
            return alts[m].get(a.id, [a]) if isinstance(a, ast.Name) else [a]
        changed = True
        while changed:
            changed = False
            for m, fi in reach.items():
                for n in ast.walk(body_of[m]):
                    if not (isinstance(n, ast.Call) and isinstance(n.func, ast.Attribute) and attr_chain(n.func.value) == "self" and n.func.attr in reach):
                        continue
                    callee = reach[n.func.attr]
                    ps = callee.params[1:]
                    pairs = list(zip(ps, n.args)) + [(k.arg, k.value) for k in n.keywords if k.arg in ps]
                    for pn, a0 in pairs:
                        key = (callee.name, pn)
                        options = expand(a0, m)
                        if options and all(is_bary(a, m) for a in options) and pn not in bary[callee.name]:
                            bary[callee.name].add(pn)
                            changed = True
                        for a in options:
                            v = _fold(a)
                            if v is not None:
                                if key not in consts:
                                    consts[key] = set()
                                if consts[key] is not None and v not in consts[key]:
                                    consts[key].add(v)
                                    changed = True
                            elif isinstance(a, ast.Name) and consts.get((m, a.id)):
                                cur = consts.setdefault(key, set())
                                if cur is not None and not consts[(m, a.id)] <= cur:
                                    cur.update(consts[(m, a.id)])
                                    changed = True
                            elif consts.get(key) and not is_bary(a, m):
                                consts[key] = None  # the same parameter also receives a non-constant: not decidable by constants
                                changed = True
        for m, fi in sorted(reach.items()):
            rep.saw(fi)
            once = set()
            for n in ast.walk(body_of[m]):
                if isinstance(n, (ast.Call, ast.Compare)):
                    key = (getattr(n, "lineno", 0), getattr(n, "col_offset", 0), dump(n))
                    if key in once:
                        continue  # the value of a temporary that is read several times
                    once.add(key)
                if isinstance(n, ast.Call) and (attr_chain(n.func) or "") in ("torch.isclose", "np.isclose", "numpy.isclose") and len(n.args) >= 2:
                    cexpr = n.args[1]
                    vals = None
                    v = _fold(cexpr)
                    inner = cexpr
                    while isinstance(inner, ast.Call) and attr_chain(inner.func) in ("torch.tensor", "torch.as_tensor", "float") and inner.args:
                        inner = inner.args[0]
                    if v is not None:
                        vals = {v}
                    elif isinstance(inner, ast.Name) and consts.get((m, inner.id)):
                        vals = consts[(m, inner.id)]
                    if vals is None:
                        continue  # compared with a run-time quantity (radius, interval end): a relative tolerance scales with it
                    rt, at = kwarg(n, "rtol", 2), kwarg(n, "atol", 3)
                    rtol = 1e-5 if rt is None else _fold(rt)
                    atol = 1e-8 if at is None else _fold(at)
                    for c in sorted(vals):
                        label = f"isclose({dump(n.args[0])[:40]}, {c:g})"
                        if rtol is None or atol is None:
                            rep.undecided(R, fi.site(n), fi.fq, f"{label}: constant tolerances", f"rtol={dump(rt) if rt is not None else 'default'}, atol={dump(at) if at is not None else 'default'}")
                            continue
                        eff = atol + rtol * abs(c)
                        records.append((ci.name, frozenset(role.get(m, ())), c, eff, fi, n))
                        rep.check(R, eff >= SLACK, fi.site(n), fi.fq, f"{label}: atol + rtol*|c| >= {SLACK:g}", f"effective tolerance {eff:g}", f"{label} tolerance {eff:g}")
                if isinstance(n, ast.Compare) and len(n.ops) == 1 and isinstance(n.ops[0], (ast.LtE, ast.Lt, ast.GtE, ast.Gt)):
                    # |b - c| <= t spelled out: the explicit form of isclose with atol = t, rtol = 0
                    small, big = (n.left, n.comparators[0]) if isinstance(n.ops[0], (ast.LtE, ast.Lt)) else (n.comparators[0], n.left)
                    inner = None
                    if isinstance(small, ast.Call) and attr_chain(small.func) in ("torch.abs", "abs", "torch.absolute") and len(small.args) == 1:
                        inner = small.args[0]
                    elif isinstance(small, ast.Call) and isinstance(small.func, ast.Attribute) and small.func.attr in ("abs", "absolute") and not small.args:
                        inner = small.func.value
                    t = _fold(big)
                    if inner is not None:
                        subj = inner.left if isinstance(inner, ast.BinOp) and isinstance(inner.op, (ast.Sub, ast.Add)) and not is_bary(inner, m) else inner
                        if is_bary(subj, m):
                            label = f"|{dump(inner)[:40]}| <= t"
                            if t is None:
                                rep.undecided(R, fi.site(n), fi.fq, f"{label}: constant tolerance", dump(big)[:60])
                            else:
                                cc = _fold(inner.right) if inner is not subj else 0.0
                                if cc is not None:
                                    records.append((ci.name, frozenset(role.get(m, ())), cc if isinstance(inner.op, ast.Sub) else -cc, t, fi, n) if inner is not subj else (ci.name, frozenset(role.get(m, ())), 0.0, t, fi, n))
                                rep.check(R, t >= SLACK, fi.site(n), fi.fq, f"{label}: t >= {SLACK:g}", f"tolerance {t:g}", f"{label} tolerance {t:g}")
                            continue
                if isinstance(n, ast.Compare) and "_contains" in role.get(m, ()):
                    terms = [n.left] + list(n.comparators)
                    for a, op, b in zip(terms, n.ops, terms[1:]):
                        if not isinstance(op, (ast.LtE, ast.GtE, ast.Lt, ast.Gt)):
                            continue
                        for subj, cst, subj_left in ((a, b, True), (b, a, False)):
                            if not is_bary(subj, m):
                                continue
                            v = _fold(cst)
                            if v is None:
                                continue
                            lower = (isinstance(op, (ast.GtE, ast.Gt)) and subj_left) or (isinstance(op, (ast.LtE, ast.Lt)) and not subj_left)
                            label = f"{dump(subj)[:30]} {'>=' if lower else '<='} {v:g}"
                            if lower and abs(v) < 0.5:
                                rep.check(R, v <= -SLACK, fi.site(n), fi.fq, f"lower end of the unit range widened: bound <= -{SLACK:g}", f"`{dump(n)[:60]}`: bound {v:g}", f"range test {label}")
                                ranges.append((ci.name, -v, fi, n))
                            elif not lower and abs(v - 1) < 0.5:
                                rep.check(R, v >= 1 + SLACK, fi.site(n), fi.fq, f"upper end of the unit range widened: bound >= 1 + {SLACK:g}", f"`{dump(n)[:60]}`: bound {v:g}", f"range test {label}")
                                ranges.append((ci.name, v - 1, fi, n))
    # one predicate, one order of magnitude: the slack along a side may not exceed 100x the tolerance across it
    for cname, slack, fi, n in ranges:
        effs = [r[3] for r in records if r[0] == cname and "_contains" in r[1]]
        if effs and slack > 0:
            rep.check(R, slack <= 100 * max(effs), fi.site(n), fi.fq, f"slack along the side <= 100 x the closeness tolerance of the same membership test ({max(effs):g})",
                      f"slack {slack:g}", f"range slack {slack:g} vs tolerance {max(effs):g}")
    return records


SHAPE_ONLY = ("reshape", "view", "unsqueeze", "squeeze", "flatten", "contiguous", "clone")


def _strip_shape(e: ast.AST) -> ast.AST:
    while True:
        if isinstance(e, ast.Call) and isinstance(e.func, ast.Attribute) and e.func.attr in SHAPE_ONLY:
            e = e.func.value
        elif isinstance(e, ast.Subscript) and not getattr(e, "_tuple_elt", False) and all(
                (isinstance(x, ast.Slice) and x.lower is None and x.upper is None) or (isinstance(x, ast.Constant) and x.value in (None, Ellipsis))
                for x in (e.slice.elts if isinstance(e.slice, ast.Tuple) else [e.slice])):
            e = e.value
        else:
            return e


def radial_membership(repo: Repo):
    """for the ball-shaped primitives: (class, function, return node, kind of the distance ('norm' | 'square' | None), bound as a rational function of r | None, text)"""
    from ..absdom.poly import RF, NotPoly, to_rf
    for spec in ("problem.domains.domain2D.circle.Circle", "problem.domains.domain3D.sphere.Sphere"):
        ci = repo.cls(spec)
        fi = ci.methods.get("_contains")
        if fi is None:
            raise AnalysisError(f"{spec}._contains vanished")
        for p in paths(fi.node):
            if p.ret is RAISE or p.ret is None:
                continue
            r = _strip_shape(p.ret)
            if not (isinstance(r, ast.Compare) and len(r.ops) == 1 and isinstance(r.ops[0], (ast.LtE, ast.Lt, ast.GtE, ast.Gt))):
                yield ci, fi, p.ret_node, None, None, dump(p.ret)[:100]
                continue
            small, big = (r.left, r.comparators[0]) if isinstance(r.ops[0], (ast.LtE, ast.Lt)) else (r.comparators[0], r.left)
            small = _strip_shape(small)
            kind = None
            if isinstance(small, ast.Call) and (attr_chain(small.func) or "") in ("torch.linalg.norm", "torch.norm", "torch.linalg.vector_norm"):
                kind = "norm"
            elif isinstance(small, ast.Call) and attr_chain(small.func) == "torch.sqrt":
                kind = "norm"
            elif isinstance(small, ast.BinOp) and isinstance(small.op, ast.Pow) and dump(small.right) == "0.5":
                kind = "norm"
            elif isinstance(small, ast.Call) and attr_chain(small.func) == "torch.sum" and small.args and any(
                    (isinstance(x, ast.BinOp) and isinstance(x.op, ast.Pow) and dump(x.right) == "2") or (isinstance(x, ast.BinOp) and isinstance(x.op, ast.Mult) and dump(x.left) == dump(x.right))
                    for x in ast.walk(small.args[0])):
                kind = "square"

            def atom(n):
                m = _strip_shape(n)
                if isinstance(m, ast.Subscript) and getattr(m, "_tuple_elt", False) and isinstance(m.value, ast.Call) and (attr_chain(m.value.func) or "").endswith("_compute_center_and_radius") \
                        and isinstance(m.slice, ast.Constant) and m.slice.value == 1:
                    return RF.atom("r")
                if m is not n:
                    try:
                        return to_rf(m, atom)
                    except NotPoly:
                        return None
                return None
            try:
                bound = to_rf(big, atom)
            except NotPoly:
                bound = None
            yield ci, fi, p.ret_node, kind, bound, dump(r)[:120]


def r9_radial_sign(repo: Repo, rep, rule_id="R-C05-9"):
    from ..absdom.poly import RF
    R = rep.rule(rule_id, "ball-shaped primitives compare the distance itself with a bound that grows linearly with the radius: a non-positive radius denotes the empty set", floor=2,
                 why="comparing squares forgets the sign of a parameter-dependent radius: r(t) < 0 would denote the ball of radius |r|")
    r = RF.atom("r")
    for ci, fi, node, kind, bound, text in radial_membership(repo):
        rep.saw(fi)
        if kind is None or bound is None:
            rep.undecided(R, fi.site(node), fi.fq, "distance <= bound(radius) recognisable", text)
            continue
        from ..absdom.poly import NotPoly
        try:
            lin = bound.coeff_of("r")
            rest = bound - lin * r
            is_linear = lin.is_const() and rest.is_const()
        except NotPoly:
            is_linear = False
        if kind == "square":
            rep.violation(R, fi.site(node), fi.fq, "the distance (not its square) is compared", f"squared distance compared with {bound!r}", "squared comparison")
        elif is_linear:
            rep.check(R, lin.const_value() > 0, fi.site(node), fi.fq, "bound = c * radius + b with c > 0", f"bound {bound!r}", f"bound {bound!r}")
        else:
            rep.violation(R, fi.site(node), fi.fq, "bound = c * radius + b with c > 0", f"bound {bound!r} is not linear in the radius", f"bound {bound!r}")


def r10_sides_are_segments(repo: Repo, rep, rule_id="R-C05-10"):
    R = rep.rule(rule_id, "polygon boundaries: membership is a disjunction of sides, each side = closeness to the side's line AND a range test along it "
                 "(no assignment makes the predicate true with every range test false)", floor=2,
                 why="a closeness test alone accepts the whole infinite line through the side: points far outside the polygon are reported as boundary points")
    from ..inline import expand_helpers
    for spec in ("problem.domains.domain2D.triangle.TriangleBoundary", "problem.domains.domain2D.parallelogram.ParallelogramBoundary"):
        ci = repo.cls(spec)
        fi = ci.methods.get("_contains")
        if fi is None:
            raise AnalysisError(f"{spec}._contains vanished")
        rep.saw(fi)
        for p in paths(fi.node):
            if p.ret is RAISE or p.ret is None:
                continue
            ret = expand_helpers(repo, ci, p.ret)
            names = {}

            def atom(n):
                m = _strip_shape(n)
                if m is not n:
                    return B.from_ast(m, atom)
                if isinstance(n, ast.Call) and (attr_chain(n.func) or "").endswith("isclose"):
                    return B.var(names.setdefault(("c", dump(n)), f"close{len(names)}"))
                if isinstance(n, ast.Compare) and all(isinstance(o, (ast.Lt, ast.LtE, ast.Gt, ast.GtE)) for o in n.ops):
                    return B.var(names.setdefault(("r", dump(n)), f"range{len(names)}"))
                if isinstance(n, ast.Compare) and len(n.ops) == 1 and isinstance(n.left, ast.Call) and attr_chain(n.left.func) in ("torch.abs", "abs"):
                    return B.var(names.setdefault(("c", dump(n)), f"close{len(names)}"))
                return None
            try:
                F = B.from_ast(ret, atom)
            except B.NotBool as e:
                rep.undecided(R, fi.site(p.ret_node), fi.fq, "membership predicate is a Boolean combination of closeness and range tests", str(e)[:100])
                continue
            ranges = [v for (k, _), v in names.items() if k == "r"]
            closes = [v for (k, _), v in names.items() if k == "c"]
            if not closes:
                rep.undecided(R, fi.site(p.ret_node), fi.fq, "closeness tests found", "none")
                continue
            # is there an assignment with every range test false and the predicate true?
            bad = None
            for a in B.assignments(sorted(B.atoms(F))):
                if all(not a[r] for r in ranges) and B.ev(F, a):
                    bad = {k: v for k, v in a.items() if v}
                    break
            texts = {v: t for (k, t), v in names.items()}
            rep.check(R, bad is None, fi.site(p.ret_node), fi.fq, "no side is accepted on closeness alone", 
                      "true with all range tests false when " + ", ".join(texts[k][:50] for k in sorted(bad)) if bad else f"{len(closes)} closeness / {len(ranges)} range tests",
                      "line instead of segment: " + ", ".join(texts[k][:40] for k in sorted(bad)) if bad else "")


def r11_all_rows_answered(repo: Repo, rep, rule_id="R-C05-11"):
    R = rep.rule(rule_id, "a membership test that works through its rows in chunks enumerates ceil(N / size) chunks: no floor division for the chunk count", floor=10,
                 why="range(len(points) // size) skips the trailing N mod size rows: the answer has fewer rows than the query")
    dom = repo.cls("problem.domains.domain.Domain")
    for ci in repo.subclasses(dom, strict=True):
        fi = ci.methods.get("_contains")
        if fi is None:
            continue
        rep.saw(fi)
        bad = []
        for n in ast.walk(fi.node):
            it = n.iter if isinstance(n, (ast.For, ast.comprehension)) else None
            if not (isinstance(it, ast.Call) and attr_chain(it.func) == "range" and len(it.args) == 1):
                continue
            a = it.args[0]
            floor_div = isinstance(a, ast.BinOp) and isinstance(a.op, ast.FloorDiv) and "len(" in dump(a.left)
            trunc = isinstance(a, ast.Call) and attr_chain(a.func) == "int" and a.args and isinstance(a.args[0], ast.BinOp) and isinstance(a.args[0].op, ast.Div) and "len(" in dump(a.args[0].left)
            if floor_div or trunc:
                bad.append(dump(it)[:60])
        rep.check(R, not bad, fi.site(), fi.fq, "chunk loops cover every row", str(bad[:2]), f"chunk count by floor division: {bad[:2]}")


def r12_orientation_free_interior(repo: Repo, rep, rule_id="R-C05-12"):
    from ..absdom.poly import RF, NotPoly, component_of, to_rf
    from ..inline import expand_helpers
    R = rep.rule(rule_id, "interior tests of triangle and parallelogram do not depend on the order of the two spanning directions: exchanging them maps the set of "
                 "tested quantities onto itself (as rational functions)", floor=2,
                 why="numerators compared without their determinant change sign with the vertex orientation: a clockwise shape contains nothing")
    # (class, constructor helper, the two spanning directions as (tuple index, sign))
    specs = (("problem.domains.domain2D.triangle.Triangle", "_construct_triangle", ((3, 1), (5, -1))),
             ("problem.domains.domain2D.parallelogram.Parallelogram", "_construct_parallelogram", ((3, 1), (4, 1))))
    for spec, helper, ((ia, sa_), (ib, sb_)) in specs:
        ci = repo.cls(spec)
        fi = ci.methods.get("_contains")
        if fi is None:
            raise AnalysisError(f"{spec}._contains vanished")
        rep.saw(fi)

        def make_atom(swapped):
            def elt(idx, k):
                if swapped and idx == ia:
                    return RF.const(sa_ * sb_) * RF.atom(f"e{ib}.{k}")
                if swapped and idx == ib:
                    return RF.const(sa_ * sb_) * RF.atom(f"e{ia}.{k}")
                return RF.atom(f"e{idx}.{k}")

            def vec(b, k):
                if isinstance(b, ast.UnaryOp) and isinstance(b.op, ast.USub):
                    v = vec(b.operand, k)
                    return None if v is None else RF.const(0) - v
                if isinstance(b, ast.Subscript) and isinstance(b.slice, ast.Constant) and isinstance(b.slice.value, int) and isinstance(b.value, ast.Call) and (attr_chain(b.value.func) or "").endswith(helper):
                    return elt(b.slice.value, k)
                if isinstance(b, ast.BinOp) and isinstance(b.op, ast.Sub) and "as_tensor" in dump(b.left):
                    o = vec(b.right, k)
                    return None if o is None else RF.atom(f"q.{k}") - o
                if isinstance(b, (ast.Attribute, ast.Subscript, ast.Name)) and "as_tensor" in dump(b):
                    return RF.atom(f"q.{k}")
                return None

            def atom(n):
                c = component_of(n)
                if c is None:
                    return None
                k = c[1][1] if isinstance(c[1], tuple) else c[1]
                return vec(c[0], k)
            return atom
        for p in paths(fi.node):
            if p.ret is RAISE or p.ret is None:
                continue
            ret = expand_helpers(repo, ci, p.ret, accept=lambda f: f.name == "_solve_lgs")
            cmps = [c for c in ast.walk(ret) if isinstance(c, ast.Compare) and all(isinstance(o, (ast.Lt, ast.LtE, ast.Gt, ast.GtE)) for o in c.ops)]
            if not cmps:
                rep.undecided(R, fi.site(p.ret_node), fi.fq, "comparisons of barycentric quantities", "none found")
                continue
            try:
                sets = []
                for swapped in (False, True):
                    at = make_atom(swapped)
                    T = []
                    for c in cmps:
                        terms = [c.left] + list(c.comparators)
                        for a, op, b in zip(terms, c.ops, terms[1:]):
                            ra, rb = to_rf(a, at), to_rf(b, at)
                            v = (rb - ra) if isinstance(op, (ast.Lt, ast.LtE)) else (ra - rb)
                            if not any(v == w for w in T):
                                T.append(v)
                    sets.append(T)
            except NotPoly as e:
                rep.undecided(R, fi.site(p.ret_node), fi.fq, "tested quantities are rational functions of point and direction components", str(e)[:100])
                continue
            lost = [v for v in sets[0] if not any(v == w for w in sets[1])]
            same = not lost and len(sets[0]) == len(sets[1])
            rep.check(R, same, fi.site(p.ret_node), fi.fq, "exchanging the spanning directions permutes the tested quantities",
                      f"{len(sets[0])} tested quantities; after the exchange {len(lost)} of them have no counterpart, e.g. {[repr(v)[:80] for v in lost[:1]]}",
                      f"orientation dependent: {[repr(v)[:60] for v in lost[:1]]}")


def _roles_of(expr: ast.AST, roles: Dict[str, Set[str]]) -> Set[str]:
    out = set()
    for n in ast.walk(expr):
        if isinstance(n, ast.Name) and n.id in roles:
            out |= roles[n.id]
    return out


def _shape_calls(repo, ci: ClassInfo, fi: FuncInfo, roles, shapes, depth):
    out = []
    if depth > 3:
        return out
    seen = set()
    for p in paths(fi.node):
        for e in p.events:
            if e.value is None:
                continue
            for c in ast.walk(e.value):
                if not isinstance(c, ast.Call) or not isinstance(c.func, ast.Attribute):
                    continue
                key = (getattr(c, "lineno", 0), getattr(c, "col_offset", 0), dump(c.func))
                recv = attr_chain(c.func.value)
                if recv not in ("self", "self.domain"):
                    continue
                name = c.func.attr
                if name in shapes:
                    if key in seen:
                        continue
                    seen.add(key)
                    arg = c.args[0] if c.args else (c.keywords[0].value if c.keywords else None)
                    role = _roles_of(arg, roles) if arg is not None else set()
                    out.append((fi.site(c), f"{recv}.{name}({dump(arg)[:40]})", role))
                else:
                    # helper method of the class / of the wrapped domain's class
                    target = None
                    if recv == "self":
                        target = repo.resolve_method(ci, name)
                        tci = ci
                    else:
                        tci = _domain_class_of(repo, ci)
                        target = repo.resolve_method(tci, name) if tci else None
                    if target is None or target.name in ("_contains",) or not target.module.name.startswith("torchphysics.problem.domains.domain") or target.cls is None:
                        continue
                    if target.cls.name in ("Domain", "BoundaryDomain"):
                        continue
                    if key in seen:
                        continue
                    seen.add(key)
                    sub_roles = {}
                    tparams = target.params[1:]
                    for i, a in enumerate(c.args):
                        if i < len(tparams):
                            sub_roles[tparams[i]] = _roles_of(a, roles)
                    for k in c.keywords:
                        if k.arg in tparams:
                            sub_roles[k.arg] = _roles_of(k.value, roles)
                    out.extend(_shape_calls(repo, tci, target, sub_roles, shapes, depth + 1))
    return out


def _domain_class_of(repo: Repo, bci: ClassInfo) -> Optional[ClassInfo]:
    """class asserted for `domain` in a boundary class's __init__ (assert isinstance(domain, X))"""
    init = bci.methods.get("__init__")
    if init is None:
        return None
    for n in ast.walk(init.node):
        if isinstance(n, ast.Assert) and isinstance(n.test, ast.Call) and attr_chain(n.test.func) == "isinstance" and len(n.test.args) == 2:
            got = repo.lookup(bci.module, dump(n.test.args[1]))
            if isinstance(got, ClassInfo):
                return got
    return None


# ---------------------------------------------------------------- R-C05-4
def r4_cramer(repo: Repo, rep):
    from ..absdom.poly import RF, NotPoly, component_of, to_rf
    R = rep.rule("R-C05-4", "_solve_lgs returns the barycentric coordinates (x, y) with x*dir_1 + y*dir_2 == points as a rational identity", floor=2,
                 why="the interior/boundary predicates of parallelogram and triangle test these coordinates against [0,1]; a wrong sign or "
                     "denominator (e.g. |det| for det) accepts the mirrored shape for one vertex orientation")
    for cname, mod in (("Parallelogram", "parallelogram"), ("Triangle", "triangle")):
        ci = repo.cls(f"problem.domains.domain2D.{mod}.{cname}")
        fi = ci.methods.get("_solve_lgs")
        if fi is None:
            rep.undecided(R, ci.module.relpath, ci.fq, "_solve_lgs helper", "vanished: idiom not recognised")
            continue
        rep.saw(fi)
        pn, d1, d2 = fi.params[1], fi.params[2], fi.params[3]

        def atom(n):
            c = component_of(n)
            if c is not None and isinstance(c[0], ast.Name) and c[0].id in (pn, d1, d2):
                k = c[1]
                k = k[1] if isinstance(k, tuple) else k
                return RF.atom(f"{c[0].id}.{k}")
            if isinstance(n, ast.Call) and ends(attr_chain(n.func), "abs") and len(n.args) == 1:
                inner = to_rf(n.args[0], atom)
                return RF.atom(f"|{inner!r}|")
            if isinstance(n, ast.Call) and isinstance(n.func, ast.Attribute) and n.func.attr == "abs" and not n.args:
                inner = to_rf(n.func.value, atom)
                return RF.atom(f"|{inner!r}|")
            # value-changing (non-rational) functions: an opaque value, so the identity fails unless it cancels
            if isinstance(n, ast.Call) and (attr_chain(n.func) or "").split(".")[-1] in ("clamp", "clamp_min", "clamp_max", "clip", "relu", "maximum", "minimum", "sign", "round", "floor", "ceil", "nan_to_num", "where") and n.args:
                if attr_chain(n.func).split(".")[-1] == "where":
                    return RF.atom(f"where[{dump(n)[:60]}]")  # a value-dependent replacement: opaque whatever its condition is
                inner = to_rf(n.args[0], atom)
                return RF.atom(f"{attr_chain(n.func).split('.')[-1]}[{inner!r}]")
            return None
        for p in paths(fi.node):
            if p.ret is RAISE:
                continue
            r = p.ret
            if not (isinstance(r, ast.Tuple) and len(r.elts) == 2):
                rep.undecided(R, fi.site(), fi.fq, "returns (bary_x, bary_y)", dump(r)[:80])
                continue
            from ..inline import expand_helpers
            r = expand_helpers(repo, ci, r)
            try:
                bx, by = to_rf(r.elts[0], atom), to_rf(r.elts[1], atom)
                ok = True
                detail = []
                for k in (0, 1):
                    lhs = bx * RF.atom(f"{d1}.{k}") + by * RF.atom(f"{d2}.{k}")
                    good = lhs == RF.atom(f"{pn}.{k}")
                    ok = ok and good
                    detail.append(f"component {k}: x*{d1}.{k} + y*{d2}.{k} = {lhs!r}")
                rep.check(R, ok, fi.site(), fi.fq, f"x*{d1} + y*{d2} == {pn} (both components)", "; ".join(detail)[:300], f"{bx!r} | {by!r}")
            except NotPoly as e:
                rep.undecided(R, fi.site(), fi.fq, "barycentric coordinates are rational functions of the components", str(e))


# ---------------------------------------------------------------- R-C05-5
def _is_copy(expr: ast.AST, pname: str) -> Optional[bool]:
    """expanded receiver of an in-place write: True = fresh copy, False = the caller's object / a view of it, None = unrelated"""
    e = expr
    while True:
        if isinstance(e, ast.Attribute) and e.attr in ("as_tensor", "_t"):
            e = e.value
            continue
        break
    if isinstance(e, ast.Name):
        return False if e.id == pname else None
    if isinstance(e, ast.Subscript):
        root = e.value
        while isinstance(root, ast.Attribute) and root.attr in ("as_tensor", "_t"):
            root = root.value
        if isinstance(root, ast.Name) and root.id == pname:
            idx = e.slice.elts if isinstance(e.slice, ast.Tuple) else [e.slice]
            adv = any(isinstance(i, (ast.List, ast.ListComp)) or (isinstance(i, ast.Call) and attr_chain(i.func) == "list") for i in idx)
            return True if adv else False
        return _is_copy(e.value, pname)
    if isinstance(e, ast.Call):
        if isinstance(e.func, ast.Attribute) and e.func.attr in ("clone", "detach", "float", "double", "repeat", "join", "to"):
            return True if e.func.attr in ("clone", "repeat", "join") else _is_copy(e.func.value, pname)
        return None
    if isinstance(e, ast.BinOp):
        return None  # result of arithmetic: a new tensor
    return None


def r5_purity(repo: Repo, rep):
    R = rep.rule("R-C05-5", "no `_contains` writes into (a view of) the points or params it was given", floor=20,
                 why="operands of a Boolean operation are queried one after the other with the same Points object; a membership test that "
                     "shifts it in place changes what the next operand sees")
    dom = repo.cls("problem.domains.domain.Domain")
    for ci in repo.subclasses(dom):
        fi = ci.methods.get("_contains")
        if fi is None or len(fi.params) < 2:
            continue
        rep.saw(fi)
        bad = []
        for pname in fi.params[1:3]:
            for p in paths(fi.node):
                for e in p.events:
                    tgt = None
                    if e.kind == "store":
                        tgt = e.target.value
                    elif e.kind == "aug":
                        tgt = e.target
                    elif e.kind == "call" and isinstance(e.value, ast.Call) and isinstance(e.value.func, ast.Attribute) and e.value.func.attr.endswith("_") and not e.value.func.attr.startswith("_"):
                        tgt = e.value.func.value
                    if tgt is None:
                        continue
                    # `x -= v` on a python number / rebinding is not a write; on the original name it is
                    c = _is_copy(tgt, pname)
                    if c is False:
                        bad.append(f"{dump(e.node)[:70]} writes into `{pname}`")
        bad = sorted(set(bad))
        rep.check(R, not bad, fi.site(), fi.fq, "points/params are only read", "; ".join(bad[:2]), "; ".join(bad[:2]))


# ------------------------------------------------------------------ R-C05-13
def _lower_bound(e: ast.AST):
    """a lower bound of a tolerance expression whose unknown sub-terms are sizes (>= 0): constants, +, *, max/min, abs; None when no bound follows"""
    if isinstance(e, ast.Constant) and isinstance(e.value, (int, float)) and not isinstance(e.value, bool):
        return float(e.value)
    if isinstance(e, ast.Call):
        ch = attr_chain(e.func) or ""
        if ch in ("max", "torch.maximum", "np.maximum", "numpy.maximum") and e.args and not e.keywords:
            got = [_lower_bound(a) for a in e.args]
            known = [g for g in got if g is not None]
            return max(known) if known else None
        if ch in ("min", "torch.minimum", "np.minimum", "numpy.minimum") and e.args and not e.keywords:
            got = [_lower_bound(a) for a in e.args]
            return None if any(g is None for g in got) else min(got)
        if ch in ("abs", "torch.abs", "float", "torch.tensor", "torch.as_tensor") and e.args:
            return max(0.0, _lower_bound(e.args[0]) or 0.0) if ch.endswith("abs") else _lower_bound(e.args[0])
        return 0.0  # an extent, a norm, a length
    if isinstance(e, ast.BinOp):
        a, b = _lower_bound(e.left), _lower_bound(e.right)
        if isinstance(e.op, ast.Add):
            return None if a is None or b is None else a + b
        if isinstance(e.op, ast.Mult):
            return None if a is None or b is None or a < 0 or b < 0 else a * b
        if isinstance(e.op, ast.Sub):
            return None  # a difference of sizes has no sign
        if isinstance(e.op, ast.Pow) and isinstance(e.right, ast.Constant) and isinstance(e.right.value, (int, float)) and e.right.value < 0 \
                and isinstance(e.left, ast.Constant) and isinstance(e.left.value, (int, float)) and e.left.value > 0:
            return float(e.left.value) ** float(e.right.value)
        return None
    if isinstance(e, (ast.Name, ast.Attribute, ast.Subscript)):
        return 0.0
    return None


def r14_scale_of_tolerances(repo: Repo, rep, rule_id="R-C05-14"):
    R = rep.rule(rule_id, "closeness to a quantity that carries the SIZE of the shape (radius, interval bound) keeps a relative tolerance of at least 1e-6; a tolerance attribute "
                 "computed by a boundary never falls below the float32 resolution of unit coordinates (1e-7) however small the shape; a boundary of a shape with a user tolerance compares with that one", floor=6,
                 why="the boundary samplers compute their points in float32: a point on a circle of radius 300 is off by 3e-5, a point of a small polygon away from the origin by 1e-7 * |x|. "
                     "A test that rejects them makes the boundary not contain its own samples, and every Boolean normal / boundary selects the other operand there")
    bd = repo.cls("problem.domains.domain.BoundaryDomain")
    for ci in repo.subclasses(bd, strict=True):
        for mname, fi in sorted(ci.methods.items()):
            for n in ast.walk(fi.node):
                if isinstance(n, ast.Call) and (attr_chain(n.func) or "").endswith("isclose") and len(n.args) >= 2:
                    b = n.args[1]
                    if isinstance(b, ast.Constant) or (isinstance(b, ast.Call) and (attr_chain(b.func) or "") in ("torch.tensor", "torch.zeros_like", "torch.ones_like", "torch.zeros", "torch.ones")):
                        continue  # a pure number: R-C05-8
                    if any(isinstance(x, ast.Call) and isinstance(x.func, ast.Attribute) and x.func.attr == "_solve_lgs" for x in ast.walk(n)):
                        continue
                    rt = kwarg(n, "rtol", 2)
                    rep.saw(fi)
                    if rt is None:
                        rep.check(R, True, fi.site(n), fi.fq, "relative tolerance >= 1e-6", "default rtol 1e-5", "")
                        continue
                    v = _lower_bound(rt)
                    rep.check(R, v is not None and v >= 1e-6, fi.site(n), fi.fq, f"closeness to `{dump(b)[:40]}` (scales with the shape) keeps a relative tolerance >= 1e-6",
                              f"rtol = {dump(rt)}" + ("" if v is None else f" (lower bound {v:g})"), f"rtol {dump(rt)} against {dump(b)[:40]}")
        # tolerance attributes computed in the class
        for mname, fi in sorted(ci.methods.items()):
            for n in ast.walk(fi.node):
                if isinstance(n, ast.Assign) and any(isinstance(t, ast.Attribute) and attr_chain(t.value) == "self" and "tol" in t.attr.lower() for t in n.targets):
                    rep.saw(fi)
                    if isinstance(n.value, ast.Name) and n.value.id in fi.params:
                        rep.check(R, True, fi.site(n), fi.fq, "tolerance given by the caller", "", "")
                        continue
                    v = _lower_bound(n.value)
                    rep.check(R, v is not None and v >= 1e-7, fi.site(n), fi.fq, "a computed tolerance is at least 1e-7 for every size of the shape", f"{dump(n.value)[:100]}" + ("" if v is None else f" (lower bound {v:g})"),
                              f"tolerance {dump(n.value)[:80]}")
        # the user's tolerance of the inner domain is the one compared with
        inner = _domain_class_of(repo, ci)
        init = inner.methods.get("__init__") if inner is not None else None
        if init is not None and "tol" in init.params:
            for mname, fi in sorted(ci.methods.items()):
                for n in ast.walk(fi.node):
                    if isinstance(n, ast.Compare) and len(n.ops) == 1 and isinstance(n.ops[0], (ast.LtE, ast.Lt, ast.GtE, ast.Gt)):
                        sides = [n.left, n.comparators[0]]
                        tols = [x for x in sides if "tol" in dump(x).lower()]
                        if not tols:
                            continue
                        rep.saw(fi)
                        rep.check(R, all(dump(x) == "self.domain.tol" for x in tols), fi.site(n), fi.fq, f"compares with the tolerance the user gave {inner.name} (self.domain.tol)", dump(n)[:80], dump(n)[:80])


def r13_mask_combination(repo: Repo, rep):
    R = rep.rule("R-C05-13", "membership answers are combined with torch.logical_and / logical_or / logical_not (defined for every mask dtype) as long as a domain of the package "
                 "answers with a float 0./1. mask; the bitwise operators & | ~ are not defined for those", floor=1,
                 why="ShapelyPolygon._contains fills a float tensor: `in_a & in_b` raises for every expression with a polygon operand instead of answering row by row")
    from ..util import deref, single_defs
    float_masks = []
    for name, m in repo.modules.items():
        if ".problem.domains." not in name:
            continue
        for ci in m.classes.values():
            fi = ci.methods.get("_contains")
            if fi is None:
                continue
            tmp = single_defs(fi.node)
            for r in ast.walk(fi.node):
                if isinstance(r, ast.Return) and r.value is not None:
                    v = deref(r.value, tmp)
                    while isinstance(v, ast.Call) and isinstance(v.func, ast.Attribute) and v.func.attr in ("reshape", "view", "to"):
                        v = v.func.value
                    if isinstance(v, ast.Name):
                        binds = [a.value for a in ast.walk(fi.node) if isinstance(a, ast.Assign) and len(a.targets) == 1 and isinstance(a.targets[0], ast.Name) and a.targets[0].id == v.id]
                        if len(binds) == 1:
                            v = binds[0]
                    if isinstance(v, ast.Call) and attr_chain(v.func) in ("torch.zeros", "torch.ones", "torch.empty") and not any(k.arg == "dtype" for k in v.keywords):
                        float_masks.append(fi)
    rep.check(R, True, "src/torchphysics/problem/domains", "-", "inventory of float-valued membership answers", f"{[f.fq.split('.')[-2] for f in float_masks]}", "inventory")
    if not float_masks:
        return  # every answer is Boolean: the operator spelling is then equivalent
    why = float_masks[0].fq.split(".")[-2]
    for name, m in repo.modules.items():
        if ".problem.domains." not in name and ".problem.samplers." not in name:
            continue
        funcs = list(m.functions.values()) + [fi for ci in m.classes.values() for fi in ci.methods.values()]
        for fi in funcs:
            ops = [n for n in ast.walk(fi.node) if (isinstance(n, ast.BinOp) and isinstance(n.op, (ast.BitAnd, ast.BitOr, ast.BitXor))) or (isinstance(n, ast.UnaryOp) and isinstance(n.op, ast.Invert))]
            if not ops:
                continue
            tmp = single_defs(fi.node)
            for n in ops:
                operands = [n.left, n.right] if isinstance(n, ast.BinOp) else [n.operand]
                def is_mask(x):
                    if isinstance(x, ast.Call) and isinstance(x.func, ast.Attribute) and x.func.attr in ("_contains", "__contains__"):
                        return True
                    if isinstance(x, ast.Call) and (attr_chain(x.func) or "") in ("torch.logical_and", "torch.logical_or", "torch.logical_not", "torch.logical_xor"):
                        return any(is_mask(a) for a in x.args)
                    if isinstance(x, ast.BinOp) and isinstance(x.op, (ast.BitAnd, ast.BitOr, ast.BitXor)):
                        return is_mask(x.left) or is_mask(x.right)
                    if isinstance(x, ast.UnaryOp) and isinstance(x.op, ast.Invert):
                        return is_mask(x.operand)
                    return False
                member = [o for o in operands if is_mask(deref(o, tmp))]
                if member:
                    rep.saw(fi)
                    rep.violation(R, fi.site(n), fi.fq, f"torch.logical_* on membership answers (a {why} operand answers with a float mask)", dump(n)[:80], f"bitwise {dump(n)[:60]}")


def run(repo: Repo, rep):
    from .c17 import r1b_motion_boundaries  # the boundary of a moved domain is tested with the SAME motion: the pivot / translation must reach `.boundary`
    r1b_motion_boundaries(repo, rep)
    r13_mask_combination(repo, rep)
    r14_scale_of_tolerances(repo, rep)
    from .c06 import r7b_edge_table  # the boundary of a polygon is the union of its sides: closeness is tested against the lines that carry them and no other
    r7b_edge_table(repo, rep)
    r1_truth_tables(repo, rep)
    r2_pullback(repo, rep)
    r3_rowwise(repo, rep)
    r4_cramer(repo, rep)
    r5_purity(repo, rep)
    r6_answer_shape(repo, rep)
    r7_own_columns(repo, rep)
    r8_side_tolerance(repo, rep)
    r9_radial_sign(repo, rep)
    r10_sides_are_segments(repo, rep)
    r11_all_rows_answered(repo, rep)
    r12_orientation_free_interior(repo, rep)
    from .c12 import r3_selection  # the name-based selection this property's idioms rely on
    r3_selection(repo, rep)
    from .c13 import r2_r3_mapping  # shape functions are evaluated with each row's own values: given names win over stored defaults
    r2_r3_mapping(repo, rep)
    from .c02 import r9_motion_params  # a moved domain contains its own samples only if row i is moved with parameter row i
    r9_motion_params(repo, rep)
    from .c13 import r5_copy_on_partial  # shape functions fixed by a partial evaluation live in a deep copy: the original and earlier evaluations keep their own values
    r5_copy_on_partial(repo, rep)
    from .c17 import r1_roundtrip, r5_point_data  # a partially evaluated expression denotes the same set: every constructor argument (pivot, flags, sub-domains) must be carried over; a fixed factor becomes the Point with its coordinates in space order
    r1_roundtrip(repo, rep)
    r5_point_data(repo, rep)
    from .c17 import r6_derived_functions  # membership of an evaluated rotated domain needs a rotation MATRIX: the angle wrapper must survive partial evaluation
    r6_derived_functions(repo, rep)
    from .c12 import r6_empty_and_slices  # `points[:, list(space.keys())]` relies on Space[[names]] listing the names in the requested order
    r6_empty_and_slices(repo, rep)


_U = "src/torchphysics/problem/domains/domainoperations/union.py"
_CU = "src/torchphysics/problem/domains/domainoperations/cut.py"
_I = "src/torchphysics/problem/domains/domainoperations/intersection.py"
_P = "src/torchphysics/problem/domains/domainoperations/product.py"
_T = "src/torchphysics/problem/domains/domainoperations/translate.py"
_R = "src/torchphysics/problem/domains/domainoperations/rotate.py"
_CI = "src/torchphysics/problem/domains/domain2D/circle.py"
_IV = "src/torchphysics/problem/domains/domain1D/interval.py"
_TRI = "src/torchphysics/problem/domains/domain2D/triangle.py"
_PAR = "src/torchphysics/problem/domains/domain2D/parallelogram.py"
MUTANTS = [
    dict(id="C05-M50", file=_I, old="        return torch.logical_and(in_a, in_b)\n\n    def _get_volume", new="        return in_b & in_a\n\n    def _get_volume", rule="R-C05-13", what="bitwise operator on masks that may be float (polygon operands)"),
    dict(id="C05-M40", file=_TRI, old="close_to_0 = torch.isclose(bary_coord1, torch.tensor(0.0), atol=1e-5)", new="close_to_0 = torch.isclose(bary_coord1, torch.tensor(0.0))", rule="R-C05-8", what="side test at 0 with the default atol"),
    dict(id="C05-M41", file=_PAR, old="between_0_1 = torch.logical_and(-1e-5 <= bary_coord2, bary_coord2 <= 1 + 1e-5)", new="between_0_1 = torch.logical_and(0 <= bary_coord2, bary_coord2 <= 1)", rule="R-C05-8", what="exact range test in boundary membership"),
    dict(id="C05-M42", file=_PAR, old="close_to_0 = torch.isclose(bary_coord1, torch.tensor(0.0), atol=1e-5)", new="close_to_0 = torch.abs(bary_coord1) <= 1e-8", rule="R-C05-8", what="explicit absolute test below float32 resolution"),
    dict(id="C05-M1", file=_U, old="        return torch.logical_or(in_a, in_b)", new="        return torch.logical_and(in_a, in_b)", rule="R-C05-1", what="union as and"),
    dict(id="C05-M2", file=_CU, old="        return torch.logical_and(in_a, torch.logical_not(in_b))", new="        return torch.logical_and(in_b, torch.logical_not(in_a))", rule="R-C05-1", what="cut operands swapped"),
    dict(id="C05-M3", file=_I, old="        on_a_part = torch.logical_and(on_a_bound, in_b)", new="        on_a_part = torch.logical_and(on_a_bound, torch.logical_not(in_b))", rule="R-C05-1", what="intersection boundary polarity"),
    dict(id="C05-M4", file=_CU, old="        on_b_part = torch.logical_and(on_b_bound, in_a)\n        on_b_part = torch.logical_and(on_b_part, torch.logical_not(on_a_bound))", new="        on_b_part = torch.logical_and(on_b_bound, torch.logical_not(on_a_bound))", rule="R-C05-1", what="cut boundary without in_a"),
    dict(id="C05-M5", file=_P, old="        in_b = self.domain_b._contains(points, params)\n        return torch.logical_and(in_a, in_b)", new="        in_b = self.domain_b._contains(points)\n        return torch.logical_and(in_a, in_b)", rule="R-C05-1", what="params not forwarded to a factor"),
    dict(id="C05-M6", file=_T, old=".as_tensor - translate_values", new=".as_tensor + translate_values", rule="R-C05-2", what="pull-back with +"),
    dict(id="C05-M7", file=_R, old="        shifted_points = rotated_points.squeeze(-1) + translate_values\n        return self.domain._contains", new="        shifted_points = rotated_points.squeeze(-1) - translate_values\n        return self.domain._contains", rule="R-C05-2", what="rotation centre sign"),
    dict(id="C05-M8", file=_R, old="        rotated_points = torch.linalg.solve(\n            rotation_matrix, shifted_points.unsqueeze(-1)\n        )", new="        rotated_points = torch.matmul(\n            rotation_matrix, shifted_points.unsqueeze(-1)\n        )", rule="R-C05-2", what="forward rotation in the pull-back"),
    dict(id="C05-M9", file=_CI, old="        center, radius = self._compute_center_and_radius(\n            points.join(params), points.device\n        )\n        points = points[:, list(self.space.keys())].as_tensor\n        norm = torch.linalg.norm(points - center, dim=1).reshape(-1, 1)\n        return torch.le(",
         new="        center, radius = self._compute_center_and_radius(\n            params, points.device\n        )\n        points = points[:, list(self.space.keys())].as_tensor\n        norm = torch.linalg.norm(points - center, dim=1).reshape(-1, 1)\n        return torch.le(", rule="R-C05-3", what="shape evaluated on params only"),
    dict(id="C05-M10", file=_IV, old="        lb = self.lower_bound(points.join(params))\n        ub = self.upper_bound(points.join(params))\n        points = points[:, list(self.space.keys())].as_tensor\n        bigger_then_low",
         new="        lb = self.lower_bound(params)\n        ub = self.upper_bound(points.join(params))\n        points = points[:, list(self.space.keys())].as_tensor\n        bigger_then_low", rule="R-C05-3", what="lower bound on params only"),
    dict(id="C05-M11", file=_U, old="        on_b_part = torch.logical_and(on_b_bound, torch.logical_not(in_a))\n        return torch.logical_or(on_a_part, torch.logical_or(on_b_part, on_both))",
         new="        on_b_part = torch.logical_and(on_b_bound, torch.logical_not(in_b))\n        return torch.logical_or(on_a_part, torch.logical_or(on_b_part, on_both))", rule="R-C05-1", what="union boundary tests b against itself"),
    dict(id="C05-M12", file=_T, old="        translated_points = original_points + translate_values", new="        translated_points = original_points - translate_values", rule="R-C05-2", what="sampler push-forward sign"),
]
TWINS = [
    dict(id="C05-T40", file=_TRI, old="close_to_0 = torch.isclose(bary_coord1, torch.tensor(0.0), atol=1e-5)", new="close_to_0 = bary_coord1.abs() <= 1e-5", what="explicit absolute test with the same slack"),
    dict(id="C05-T41", file=_PAR, old="between_0_1 = torch.logical_and(-1e-5 <= bary_coord2, bary_coord2 <= 1 + 1e-5)", new="slack = 1e-5\n        between_0_1 = torch.logical_and(bary_coord2 >= -1e-5, 1.00001 >= bary_coord2)", what="range test mirrored, folded constants"),
    dict(id="C05-T1", file=_CU, old="        return torch.logical_and(in_a, torch.logical_not(in_b))", new="        return torch.logical_not(torch.logical_or(torch.logical_not(in_a), in_b))", what="De Morgan"),
    dict(id="C05-T2", file=_I, old="        return torch.logical_and(in_a, in_b)\n\n    def _get_volume", new="        return torch.logical_and(in_b, in_a)\n\n    def _get_volume", what="commuted"),
    dict(id="C05-T3", file=_U, old="        on_both = torch.logical_and(on_b_bound, on_a_bound)\n        on_a_part = torch.logical_and(on_a_bound, torch.logical_not(in_b))\n        on_b_part = torch.logical_and(on_b_bound, torch.logical_not(in_a))\n        return torch.logical_or(on_a_part, torch.logical_or(on_b_part, on_both))",
         new="        outside_b = torch.logical_not(in_b)\n        outside_a = torch.logical_not(in_a)\n        part_a = torch.logical_and(on_a_bound, outside_b)\n        part_b = torch.logical_and(on_b_bound, outside_a)\n        both = torch.logical_and(on_a_bound, on_b_bound)\n        return torch.logical_or(torch.logical_or(part_a, part_b), both)", what="temporaries, re-associated"),
    dict(id="C05-T4", file=_T, old="        shifted_points = points[:, list(self.space.keys())].as_tensor - translate_values\n        # points[:, list(self.space.keys())] = Points(shifted_points, self.space)\n        return self.domain._contains(Points(shifted_points, self.space), params)",
         new="        own = points[:, list(self.space.keys())].as_tensor\n        moved_back = -translate_values + own\n        return self.domain._contains(Points(moved_back, self.space), params)", what="commuted sum"),
]

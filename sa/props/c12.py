"""C12 — Points and Space behave as a table with named column groups."""
from __future__ import annotations

import ast
from typing import Optional

from ..absdom.poly import RF, NotPoly, to_rf
from ..flow import RAISE, attr_chain, def_id, dump, kwarg, paths
from ..repo import AnalysisError, Repo
from ..util import ends

EXPLANATION = (
    "Pairing rules decided on expanded path expressions of Points/Space: wherever tensors are concatenated along the last axis "
    "the operand order equals the order of the spaces multiplied into the result space; variable offsets are cumulative sums over "
    "the ordered space; index and space of a selection come from one _compute_slice evaluation whose column list iterates the "
    "returned sub-space; arithmetic keeps the space under an equality assertion; equality is order-sensitive (OrderedDict)."
)
ASSUMPTIONS = [
    "collections.Counter.__add__ keeps the left operand's key order and appends new keys of the right operand (CPython)",
    "torch.cat concatenates in argument order",
]
PTS = "problem.spaces.points.Points"
SPC = "problem.spaces.space.Space"


def _ret_paths(fi):
    return [p for p in paths(fi.node) if p.ret is not RAISE]


def _points_call(r) -> Optional[ast.Call]:
    if isinstance(r, ast.Call) and attr_chain(r.func) in ("Points", "cls"):
        return r
    return None


def _cat_operands(e, dim_ok=("-1",)):
    if isinstance(e, ast.Call) and ends(attr_chain(e.func), "cat", "concat", "concatenate", "column_stack", "hstack") and e.args:
        name = attr_chain(e.func).split(".")[-1]
        d = kwarg(e, "dim", 1)
        if name in ("column_stack", "hstack"):
            dtxt = "1"  # axis 1 — the last axis only for a single batch axis
        else:
            dtxt = dump(d) if d is not None else "0"
        if isinstance(e.args[0], (ast.List, ast.Tuple)):
            return [x for x in e.args[0].elts], dtxt
        return e.args[0], dtxt
    return None, None


def r1_pairing(repo: Repo, rep):
    R = rep.rule("R-C12-1", "tensor-column order == space order at join / joined / from_coordinates; row concatenation keeps the space", floor=6,
                 why="columns concatenated in another order than the spaces are labelled with the wrong variable names")
    P = repo.cls(PTS)
    # join
    fi = P.methods.get("join")
    if fi is None:
        raise AnalysisError("Points.join vanished")
    rep.saw(fi)
    o = fi.params[1]
    n = 0
    for p in _ret_paths(fi):
        c = _points_call(p.ret)
        if c is None:
            continue  # the empty short-cuts return one operand unchanged
        n += 1
        ops, d = _cat_operands(c.args[0])
        sp = c.args[1] if len(c.args) > 1 else None
        good = isinstance(ops, list) and [dump(x) for x in ops] == ["self._t", f"{o}._t"] and d == "-1" and dump(sp) == f"self.space * {o}.space"
        alt = isinstance(ops, list) and [dump(x) for x in ops] == [f"{o}._t", "self._t"] and d == "-1" and dump(sp) == f"{o}.space * self.space"
        rep.check(R, good or alt, fi.site(p.ret_node), fi.fq, "cat([self._t, other._t], dim=-1) with space self.space * other.space", dump(p.ret), dump(p.ret))
    for p in _ret_paths(fi):
        if _points_call(p.ret) is None:
            g = [dump(x) for x, pol, k in p.guards if pol and k == "if"]
            good = (dump(p.ret) == o and f"self.isempty" in " ".join(g)) or (dump(p.ret) == "self" and f"{o}.isempty" in " ".join(g))
            rep.check(R, good, fi.site(p.ret_node), fi.fq, "an empty operand yields the other operand unchanged", f"returns {dump(p.ret)} under {g}", dump(p.ret))
    if n == 0:
        rep.undecided(R, fi.site(), fi.fq, "a concatenating path", "none")
    # __or__
    fi = P.methods.get("__or__")
    if fi is None:
        raise AnalysisError("Points.__or__ vanished")
    rep.saw(fi)
    o = fi.params[1]
    for p in _ret_paths(fi):
        c = _points_call(p.ret)
        if c is None:
            continue
        ops, d = _cat_operands(c.args[0])
        good = isinstance(ops, list) and [dump(x) for x in ops] == ["self._t", f"{o}._t"] and d == "0" and dump(c.args[1]) == "self.space"
        rep.check(R, good, fi.site(p.ret_node), fi.fq, "row concatenation cat([self._t, other._t], dim=0) in self.space", dump(p.ret), dump(p.ret))
        asserted = any(k == "assert" and pol and sorted([dump(g.left), dump(g.comparators[0])]) == sorted([f"{o}.space", "self.space"])
                       for g, pol, k in p.guards if isinstance(g, ast.Compare) and isinstance(g.ops[0], ast.Eq))
        rep.check(R, asserted, fi.site(p.ret_node), fi.fq, "equal spaces (order-sensitive) asserted before concatenating rows", "no assertion", "no space assertion")
    # joined
    fi = P.methods.get("joined")
    if fi is None:
        raise AnalysisError("Points.joined vanished")
    rep.saw(fi)
    for p in _ret_paths(fi):
        c = _points_call(p.ret)
        if c is None:
            rep.undecided(R, fi.site(), fi.fq, "returns cls(cat(...), space)", dump(p.ret)[:80])
            continue
        ops, d = _cat_operands(c.args[0])
        sp = c.args[1]
        va = fi.node.args.vararg.arg if fi.node.args.vararg else (fi.params[1] if len(fi.params) > 1 else "")
        lv = [k for k, it in p.loopvars.items() if dump(it) == va]
        good = False
        detail = f"{dump(c.args[0])[:80]} / {dump(sp)[:80]}"
        if any(pol and "isempty" in dump(g) for g, pol, k in p.guards):
            continue  # the `continue` branch for empty operands: nothing appended in this iteration
        if lv and isinstance(ops, list) and len(ops) == 1 and dump(ops[0]) == f"{lv[0]}._t" and d == "-1":
            good = isinstance(sp, ast.BinOp) and isinstance(sp.op, ast.Mult) and dump(sp.right) == f"{lv[0]}.space" and dump(sp.left).startswith("Space(")
        rep.check(R, good, fi.site(p.ret_node), fi.fq, "tensors appended and spaces right-multiplied in the same loop order", detail, detail)
    # from_coordinates
    fi = P.methods.get("from_coordinates")
    if fi is None:
        raise AnalysisError("Points.from_coordinates vanished")
    rep.saw(fi)
    # every coordinate is converted on its own: no dtype / device borrowed from another entry (torch.cat promotes to a common type by itself)
    casts = []
    for c in ast.walk(fi.node):
        if isinstance(c, ast.Call) and ((attr_chain(c.func) or "") in ("torch.as_tensor", "torch.tensor") or (isinstance(c.func, ast.Attribute) and c.func.attr in ("to", "type", "type_as"))):
            dt = [k for k in c.keywords if k.arg == "dtype"] + ([c] if isinstance(c.func, ast.Attribute) and c.func.attr in ("type", "type_as") else [])
            pos = [a for a in c.args[1:] if "dtype" in dump(a)] + ([a for a in c.args if "dtype" in dump(a)] if isinstance(c.func, ast.Attribute) and c.func.attr == "to" else [])
            if dt or pos:
                casts.append(dump(c)[:70])
    rep.check(R, not casts, fi.site(), fi.fq, "coordinates keep their own dtype when they are collected", str(casts[:2]), f"dtype imposed: {casts[:1]}")
    cp = fi.params[1]
    for p in _ret_paths(fi):
        c = _points_call(p.ret)
        if c is None or not c.args:
            continue
        ops, d = _cat_operands(c.args[0])
        lv = [k for k, it in p.loopvars.items() if dump(it) in (cp, f"{cp}.keys()")]
        # the local mapping handed to Space(...): the (only) local name that receives keyed stores in the loop over the coordinates
        names = [dump(e.raw.value) for e in p.events if e.kind == "store" and e.raw is not None and isinstance(e.raw.value, ast.Name) and e.raw.value.id != cp]
        spname = names[0] if names and len(set(names)) == 1 else None
        stores = [e for e in p.events if e.kind == "store" and e.raw is not None and spname is not None and dump(e.raw.value) == spname]
        good = bool(lv) and isinstance(ops, list) and len(ops) == 1 and d == "-1" and len(stores) == 1 and dump(stores[0].raw.slice) == lv[0]
        if good:
            el = dump(ops[0])
            good = el in (f"{cp}[{lv[0]}]", f"torch.as_tensor({cp}[{lv[0]}])")
            dimv = dump(stores[0].value)
            good = good and dimv.endswith(".shape[-1]") and f"{cp}[{lv[0]}]" in dimv
            good = good and dump(c.args[1]) in (f"Space({spname})", "Space({})", f"Space({{{lv[0]}: {dimv}}})")
        rep.check(R, good, fi.site(p.ret_node), fi.fq, "columns appended and space entries inserted in one loop over the mapping", dump(p.ret)[:120], dump(p.ret)[:120])


def r2_slices(repo: Repo, rep):
    R = rep.rule("R-C12-2", "_variable_slices: [start, start+dim_v) with start advancing by dim_v over the ordered space; coordinates slices the last axis",
                 floor=3, why="offsets that are not the cumulative dimension sums hand out the wrong columns for a variable")
    P = repo.cls(PTS)
    fi = P.methods.get("_variable_slices")
    if fi is None:
        raise AnalysisError("Points._variable_slices vanished")
    rep.saw(fi)
    # partial evaluation on concrete spaces: the mapping must be {v: slice(sum of the earlier dims, that + dim_v)} in space order
    from collections import OrderedDict
    from ..absdom.listeval import Evaluator, Opaque, UNKNOWN

    def on_call(e, name, args, kws, ev, f):
        if name == "slice" and 1 <= len(args) <= 3 and all(a is None or (isinstance(a, int) and not isinstance(a, bool)) for a in args):
            return slice(*args)
        return None
    for dims in ((1,), (2, 1), (1, 2, 3), (3, 1, 2, 2)):
        space = OrderedDict((chr(ord("a") + i), d) for i, d in enumerate(dims))
        fr = Evaluator(None, on_call).run(fi.node.body, {"self": Opaque("self")}, attrs={"self.space": OrderedDict(space)})
        got = fr.ret
        want, off = OrderedDict(), 0
        for k, d in space.items():
            want[k] = (off, off + d)
            off += d
        label = f"space dims {dims}"
        if not isinstance(got, dict) or any(not isinstance(x, slice) for x in got.values()):
            rep.undecided(R, fi.site(), fi.fq, f"{label}: _variable_slices evaluable", repr(got)[:80])
            continue
        have = OrderedDict((k, (x.start or 0, x.stop)) for k, x in got.items() if x.step in (None, 1))
        rep.check(R, list(have.items()) == list(want.items()), fi.site(), fi.fq, f"{label}: slices {dict(want)} (cumulative offsets, space order)", f"{dict(have)}", f"{label}: {dict(have)}")
    fi = P.methods.get("coordinates")
    if fi is None:
        raise AnalysisError("Points.coordinates vanished")
    rep.saw(fi)
    # partial evaluation: {v: self._t[..., slices[v]]} for every v, in space order (the tensor is opaque; a subscript on it is recorded)

    def resolve(e, ev, f):
        if isinstance(e, ast.Subscript):
            base = ev.ev(e.value, f)
            if isinstance(base, Opaque) and base.tag == "T":
                elts = e.slice.elts if isinstance(e.slice, ast.Tuple) else [e.slice]
                lead = []
                for x in elts[:-1]:
                    lead.append("..." if isinstance(x, ast.Constant) and x.value is Ellipsis else ":" if isinstance(x, ast.Slice) and x.lower is None and x.upper is None and x.step is None else "?")
                last = elts[-1]
                if isinstance(last, ast.Slice):
                    v = ev.index(last, f)
                else:
                    v = ev.ev(last, f)
                if isinstance(v, slice):
                    return ("cols", tuple(lead), v.start or 0, v.stop)
        return None
    for dims in ((1,), (2, 1), (1, 2, 3)):
        space = OrderedDict((chr(ord("a") + i), d) for i, d in enumerate(dims))
        sl, off = OrderedDict(), 0
        for k, d in space.items():
            sl[k] = slice(off, off + d, None)
            off += d
        fr = Evaluator(resolve, on_call).run(fi.node.body, {"self": Opaque("self")}, attrs={"self.space": OrderedDict(space), "self._variable_slices": OrderedDict(sl), "self._t": Opaque("T")})
        got = fr.ret
        label = f"space dims {dims}"
        if not isinstance(got, dict) or any(not (isinstance(x, tuple) and x and x[0] == "cols") for x in got.values()):
            rep.undecided(R, fi.site(), fi.fq, f"{label}: coordinates evaluable", repr(got)[:100])
            continue
        want = [(k, (v.start, v.stop)) for k, v in sl.items()]
        have = [(k, (x[2], x[3])) for k, x in got.items()]
        lead_ok = all(x[1] == ("...",) for x in got.values())
        rep.check(R, have == want and lead_ok, fi.site(), fi.fq, f"{label}: coordinates[v] = self._t[..., slices[v]] for every v, in space order",
                  f"{have}" + ("" if lead_ok else " (batch axes not addressed by `...`)"), f"{label}: {have}")


def _compute_slice_cases(cs):
    """partial evaluation of Points._compute_slice on a three-variable space (x:2, t:1, u:3) for name, name-list and Ellipsis keys:
    returns [(label, ok)] or None when a case is not evaluable.  The model of Space[[names]] (the names in the requested order) is what R-C12-6 establishes."""
    from collections import OrderedDict
    from ..absdom.listeval import Evaluator, Obj, Opaque, UNKNOWN

    class SpaceM(OrderedDict):
        def __getitem__(self, k):
            if isinstance(k, (list, tuple)):
                return SpaceM((x, OrderedDict.__getitem__(self, x)) for x in k)
            if isinstance(k, slice):
                keys = list(self.keys())
                sel = keys[slice(keys.index(k.start) if k.start is not None else None, keys.index(k.stop) if k.stop is not None else None, k.step)]
                return SpaceM((x, OrderedDict.__getitem__(self, x)) for x in sel)
            return OrderedDict.__getitem__(self, k)
    dims = [("x", 2), ("t", 1), ("u", 3)]
    slc, at = {}, 0
    for k, d in dims:
        slc[k] = slice(at, at + d)
        at += d

    def on_call(e, name, args, kws, ev, f):
        if name == "Space" and args and isinstance(args[0], dict):
            return SpaceM(args[0])
        return None

    def resolve(e, ev, f):
        if isinstance(e, ast.Subscript):
            b = ev.ev(e.value, f)
            if isinstance(b, SpaceM):
                k = ev.ev(e.slice, f)
                if isinstance(k, (list, tuple)) and all(isinstance(x, str) and x in b for x in k):
                    return b[k]
                if isinstance(k, slice) and all(x is None or x in b for x in (k.start, k.stop)) and (k.step is None or isinstance(k.step, int) and k.step != 0):
                    return b[k]
        return None
    full = slice(None)
    cases = [(2, (full, ["u", "x"])), (2, (full, "u")), (2, (Ellipsis, ("t", "x"))), (2, [full, ["t"]]), (3, (full, full, ["x", "u", "t"])), (3, (Ellipsis, "x")),
             (3, (Ellipsis, ["u", "t"])), (2, (full, ["x", "t", "u"])), (2, (slice(0, 3), ("u",))),
             (2, (full, slice("t", None))), (2, (full, slice(None, "u"))), (2, (full, slice(None, None, -1))), (2, (full, slice(None, None, 2))), (3, (Ellipsis, slice("u", "x", -1))),
             (2, [0, 2, 3]), (2, [True, False, True, False, False, False, True]), (3, [1, 0, 3, 2]),
             (3, (0, 1)), (4, (2, 0, 1)), (3, (1, 2, ["u"]))]
    out = []
    for rank, key in cases:
        shape = tuple(range(7, 7 + rank - 1)) + (6,)
        T = Obj("self._t", {"shape": shape, "ndim": rank})
        key0 = [list(k) if isinstance(k, list) else k for k in key] if isinstance(key, list) else key
        try:
            fr = Evaluator(resolve, on_call).run(cs.node.body, {"self": Opaque("self"), cs.params[1]: key0},
                                                 attrs={"self._t": T, "self._t.shape": shape, "self._t.ndim": rank, "self.space": SpaceM(dims), "self._variable_slices": dict(slc), "self.dim": 6})
        except Exception:
            return None
        got = fr.ret
        if not (isinstance(got, tuple) and len(got) == 2 and isinstance(got[0], (list, tuple)) and isinstance(got[1], dict)):
            return None
        if isinstance(key, list):
            # the caller's key object must be left as it was (it may be used again, on Points with another column layout)
            same = len(key0) == len(key) and all((a == b) if not isinstance(a, slice) else (isinstance(b, slice) and (a.start, a.stop, a.step) == (b.start, b.stop, b.step)) for a, b in zip(key0, key))
            out.append((f"rank {rank}, key {key!r}: the caller's list is not modified", same, f"the list handed in became {key0!r}"))
        if isinstance(key, list) and all(isinstance(x, (int, bool)) for x in key):
            # a list of row numbers / a list mask on the first batch axis: handed on as the same LIST (a tuple would address several axes), whole space kept
            ok = isinstance(got[0], list) and list(got[0]) == list(key) and list(got[1].items()) == dims
            out.append((f"rank {rank}, row pick {key!r}: the same list under the whole space", ok, f"index {got[0]!r} ({type(got[0]).__name__}), space {list(got[1].items())}"))
            continue
        if isinstance(key, tuple) and all(isinstance(x, int) and not isinstance(x, bool) for x in key):
            # integers only, one per leading axis: must reach the tensor as a TUPLE (as a list torch gathers those rows of the first axis)
            ok = isinstance(got[0], tuple) and tuple(got[0]) == key and list(got[1].items()) == dims
            out.append((f"rank {rank}, key {key!r}: one entry per axis, handed on as a tuple under the whole space", ok, f"index {got[0]!r} ({type(got[0]).__name__}), space {list(got[1].items())}"))
            continue
        names = key[-1]
        names = [names] if isinstance(names, str) else list(SpaceM(dims)[names].keys()) if isinstance(names, slice) else list(names)
        want_cols = [c for n in names for c in range(slc[n].start, slc[n].stop)]
        idx = list(got[0])
        last = idx[-1] if idx else None
        if isinstance(last, slice) and all(x is None or isinstance(x, int) for x in (last.start, last.stop, last.step)):
            last = list(range(6))[last]
        ok = len(idx) == len(key) and list(idx[:-1]) == list(key[:-1]) and isinstance(last, list) and last == want_cols \
            and list(got[1].keys()) == names and all(got[1][n] == dict(dims)[n] for n in names)
        out.append((f"rank {rank}, key {key!r}: columns {want_cols} under space {names}", ok, f"index {got[0]!r}, space {list(got[1].items())}"))
    return out


def r3_selection(repo: Repo, rep, rule_id="R-C12-3"):
    R = rep.rule(rule_id, "name-based selection: index and space come from ONE _compute_slice evaluation, whose column list is built by "
                 "iterating the returned sub-space (requested order)", floor=4,
                 why="columns gathered in storage order but labelled in requested order bind values to the wrong names "
                     "(every model's _fix_points_order and every domain's `points[:, list(space.keys())]` rely on this)")
    P = repo.cls(PTS)
    cs = P.methods.get("_compute_slice")
    if cs is None:
        raise AnalysisError("Points._compute_slice vanished")
    rep.saw(cs)
    seen_list = seen_str = 0
    evaluated = _compute_slice_cases(cs)
    for label, ok, found in evaluated or []:
        rep.check(R, ok, cs.site(), cs.fq, label, found, label.split(":")[0])
    for p in _ret_paths(cs):
        r = p.ret
        if not (isinstance(r, ast.Tuple) and len(r.elts) == 2):
            rep.undecided(R, cs.site(), cs.fq, "returns (index, space)", dump(r)[:80])
            continue
        sp = r.elts[1]
        stores = [e for e in p.events if e.kind == "store" and e.raw is not None and dump(e.raw.slice) == "-1"]
        if dump(sp) == "self.space":
            rep.check(R, not stores, cs.site(p.ret_node), cs.fq, "no column re-mapping when the whole space is kept", f"{len(stores)} stores", "remap without subspace")
            continue
        if not stores:
            rep.violation(R, cs.site(p.ret_node), cs.fq, "the last index entry is replaced by column indices of the sub-space", "no store into val[-1]", "no remap")
            continue
        st = stores[-1]
        key = "list(val)[-1]" if "list(val)" in dump(sp) else "val[-1]"
        if isinstance(sp, ast.Call) and attr_chain(sp.func) == "Space":
            # string case: Space({name: self.space[name]}) and slices[name]
            seen_str += 1
            if evaluated:
                continue  # decided by evaluation above
            good = dump(st.value).startswith("self._variable_slices[") and dump(st.value).endswith("[-1]]")
            rep.check(R, good, cs.site(st.node), cs.fq, "single variable: index = _variable_slices[name], space = Space({name: dim})", dump(st.value), dump(st.value))
            continue
        seen_list += 1
        if evaluated:
            continue  # decided by evaluation above
        # list case: out_space = self.space[val[-1]]; idx iterates out_space
        it_ok = False
        lvs = [(k, it) for k, it in p.loopvars.items()]
        val = st.value
        detail = f"index = {dump(val)[:100]}; loops {[(k, dump(it)[:40]) for k, it in lvs]}"
        for k, it in lvs:
            if dump(it) == dump(sp):
                # accumulated: [] + rng[slc[var]]
                if f"[self._variable_slices[{k}]]" in dump(val) and "range(self.dim)" in dump(val):
                    it_ok = True
        if isinstance(val, ast.ListComp):
            gens = val.generators
            if gens and dump(gens[0].iter) == dump(sp) and not gens[0].ifs:
                it_ok = "self._variable_slices" in dump(val)
        rep.check(R, it_ok, cs.site(st.node), cs.fq, "column list built by iterating the returned sub-space `self.space[val[-1]]`", detail, detail)
    rep.check(R, seen_list >= 1 and seen_str >= 1, cs.site(), cs.fq, "list and single-name selection paths exist", f"{seen_list} list / {seen_str} name paths", "paths")
    for mname in ("__getitem__", "__setitem__"):
        fi = P.methods.get(mname)
        if fi is None:
            raise AnalysisError(f"Points.{mname} vanished")
        rep.saw(fi)
        for p in _ret_paths(fi):
            calls = {}
            for e in p.events:
                if e.value is None:
                    continue
                for c in ast.walk(e.value):
                    if isinstance(c, ast.Call) and dump(c.func) == "self._compute_slice":
                        calls[def_id(c)] = c
            one = len(calls) == 1
            arg_ok = one and dump(list(calls.values())[0].args[0]) == fi.params[1]
            rep.check(R, one and arg_ok, fi.site(), fi.fq, "exactly one _compute_slice(key) evaluation provides index and space", f"{len(calls)} evaluations", f"{len(calls)} calls")
            if not one:
                continue
            ck = dump(list(calls.values())[0])
            if mname == "__getitem__":
                c = _points_call(p.ret)
                good = c is not None and dump(c.args[1]) == f"{ck}[1]" and f"self._t[{ck}[0]]" in dump(c.args[0])
                rep.check(R, good, fi.site(p.ret_node), fi.fq, "Points(self._t[index], space) with both parts of that evaluation", dump(p.ret)[:140], dump(p.ret)[:140])
                if good:
                    # the selected tensor is handed on as it is; only a rank-1 result (a single row) is given its batch axis back - batch axes are never merged
                    sel = f"self._t[{ck}[0]]"
                    t = c.args[0]
                    plain = dump(t) == sel
                    one_row = isinstance(t, ast.Call) and isinstance(t.func, ast.Attribute) and t.func.attr == "unsqueeze" and dump(t.func.value) == sel \
                        and [dump(a) for a in t.args] == ["0"] and any(pol and dump(g).replace(" ", "") in (f"len({sel}.shape)==1", f"{sel}.dim()==1", f"{sel}.ndim==1") for g, pol, k in p.guards)
                    rep.check(R, plain or one_row, fi.site(p.ret_node), fi.fq, "the selection keeps its batch axes (only a single selected row gets unsqueeze(0))", dump(t)[:100], f"selection re-arranged: {dump(t)[:80]}")
            else:
                stores = [e for e in p.events if e.kind == "store"]
                good = len(stores) == 1 and dump(stores[0].target) == f"self._t[{ck}[0]]" and dump(stores[0].value) == f"{fi.params[2]}._t"
                asserted = any(k == "assert" and pol and sorted([dump(g.left), dump(g.comparators[0])]) == sorted([f"{ck}[1]", f"{fi.params[2]}.space"])
                               for g, pol, k in p.guards if isinstance(g, ast.Compare) and isinstance(g.ops[0], ast.Eq))
                rep.check(R, good and asserted, fi.site(), fi.fq, "self._t[index] = points._t under the assertion space == points.space",
                          f"stores {[dump(s.node) for s in stores]}, asserted={asserted}", "setitem")
    # Space.__getitem__ for lists keeps the requested order
    S = repo.cls(SPC)
    gi = S.methods.get("__getitem__")
    if gi is None:
        raise AnalysisError("Space.__getitem__ vanished")
    rep.saw(gi)
    vn = gi.params[1]
    ok_list = False
    for p in _ret_paths(gi):
        if any(pol and isinstance(g, ast.Call) and attr_chain(g.func) == "isinstance" and len(g.args) == 2 and dump(g.args[0]) == vn and ("list" in dump(g.args[1]) or "tuple" in dump(g.args[1]))
               for g, pol, k in p.guards):
            r = p.ret
            if isinstance(r, ast.Call) and attr_chain(r.func) == "Space" and r.args and isinstance(r.args[0], ast.Dict) and len(r.args[0].keys) == 1 and r.args[0].keys[0] is not None:
                # one-iteration form of {k: self[k] for k in names} / the equivalent insertion loop
                k, v = r.args[0].keys[0], r.args[0].values[0]
                src = getattr(v, "_iter_src", None)
                ok_list = src is not None and dump(src) == vn and dump(v) == f"self[{dump(k)}]" and isinstance(k, ast.Name) and k.id in getattr(v, "_iter_of", ())
                rep.check(R, ok_list, gi.site(p.ret_node), gi.fq, "Space[[names]] = Space({k: self[k] for k in names}) (requested order)", dump(r), dump(r))
    if not ok_list:
        rep.undecided(R, gi.site(), gi.fq, "list selection path of Space.__getitem__", "not found")


ARITH = {"__add__": ast.Add, "__sub__": ast.Sub, "__mul__": ast.Mult, "__truediv__": ast.Div, "__pow__": ast.Pow}


def r4_algebra(repo: Repo, rep):
    R = rep.rule("R-C12-4", "arithmetic asserts equal spaces and keeps self.space; __eq__ = space equality ∧ torch.equal; Space equality is "
                 "OrderedDict equality; Space.__mul__ = Space(self + other); dim = Σ values", floor=10,
                 why="order-insensitive equality or a swapped product silently permutes variable/column association")
    P, S = repo.cls(PTS), repo.cls(SPC)
    for mname, op in ARITH.items():
        fi = P.methods.get(mname)
        if fi is None:
            rep.violation(R, P.module.relpath, P.fq, f"{mname} defined", "missing", mname)
            continue
        rep.saw(fi)
        o = fi.params[1]
        for p in _ret_paths(fi):
            c = _points_call(p.ret)
            good = c is not None and isinstance(c.args[0], ast.BinOp) and isinstance(c.args[0].op, op) and dump(c.args[0].left) == "self._t" and dump(c.args[0].right) == f"{o}._t" and dump(c.args[1]) == "self.space"
            asserted = any(k == "assert" and pol and isinstance(g, ast.Compare) and isinstance(g.ops[0], ast.Eq) and sorted([dump(g.left), dump(g.comparators[0])]) == sorted([f"{o}.space", "self.space"]) for g, pol, k in p.guards)
            rep.check(R, good and asserted, fi.site(), fi.fq, f"Points(self._t {op.__name__} other._t, self.space) under `other.space == self.space`", f"{dump(p.ret)}; asserted={asserted}", dump(p.ret))
    fi = P.methods.get("__eq__")
    if fi is None:
        raise AnalysisError("Points.__eq__ vanished")
    rep.saw(fi)
    o = fi.params[1]
    from collections import OrderedDict
    from ..absdom.listeval import Evaluator, Opaque, UNKNOWN

    def on_call_eq(e, name, args, kws, ev, f):
        if name == "torch.equal" and args is not None and len(args) == 2 and all(isinstance(a, Opaque) for a in args):
            return args[0].tag == args[1].tag
        return None
    xt, tx = OrderedDict((("x", 2), ("t", 1))), OrderedDict((("t", 1), ("x", 2)))
    for label, sp_a, sp_b, ta, tb, want in (("same space, same data", xt, xt, "A", "A", True), ("same space, other data", xt, xt, "A", "B", False),
                                            ("variables in another order, same data", xt, tx, "A", "A", False), ("other space", xt, OrderedDict((("x", 2),)), "A", "A", False)):
        def resolve_eq(e, ev, f):
            if isinstance(e, ast.Call) and attr_chain(e.func) == "isinstance" and len(e.args) == 2 and dump(e.args[1]) == "Points" and dump(e.args[0]) in ("self", o):
                return True
            return None
        fr = Evaluator(resolve_eq, on_call_eq).run(fi.node.body, {"self": Opaque("self"), o: Opaque("other")},
                                                   attrs={"self.space": OrderedDict(sp_a), f"{o}.space": OrderedDict(sp_b), "self._t": Opaque(ta), f"{o}._t": Opaque(tb),
                                                          "self.as_tensor": Opaque(ta), f"{o}.as_tensor": Opaque(tb),
                                                          "self.variables": set(sp_a), f"{o}.variables": set(sp_b),
                                                          "self.coordinates": {k: Opaque(f"{ta}.{k}") for k in sp_a}, f"{o}.coordinates": {k: Opaque(f"{tb}.{k}") for k in sp_b}})
        if fr.ret is UNKNOWN or not fr.returned:
            rep.undecided(R, fi.site(), fi.fq, f"__eq__ evaluable ({label})", repr(fr.ret)[:60])
            continue
        rep.check(R, bool(fr.ret) == want, fi.site(), fi.fq, f"__eq__ ({label}) is {want}", repr(fr.ret)[:60], f"eq {label}: {fr.ret!r}")
    # Space.__eq__ / __ne__ by evaluation on ordered mappings: equal iff the same (variable, dimension) pairs in the same order
    def on_call_sp(e, name, args, kws, ev, f):
        if name in ("OrderedDict.__eq__", "OrderedDict.__ne__", "collections.OrderedDict.__eq__", "collections.OrderedDict.__ne__") and args is not None and len(args) == 2 \
                and all(isinstance(a, OrderedDict) for a in args):
            same = list(args[0].items()) == list(args[1].items())
            return same if name.endswith("__eq__") else not same
        if name in ("dict.__eq__", "dict.__ne__", "Counter.__eq__", "Counter.__ne__") and args is not None and len(args) == 2 and all(isinstance(a, dict) for a in args):
            same = dict(args[0]) == dict(args[1])  # order-insensitive
            return same if name.endswith("__eq__") else not same
        return None

    def resolve_sp(e, ev, f):
        if isinstance(e, ast.Name) and e.id == "NotImplemented":
            return Opaque("NotImplemented")
        return None
    x2t1 = OrderedDict((("x", 2), ("t", 1)))
    sp_cases = (("the same variables in the same order", x2t1, OrderedDict(x2t1), True), ("the same variables in another order", x2t1, OrderedDict((("t", 1), ("x", 2))), False),
                ("another dimension", x2t1, OrderedDict((("x", 1), ("t", 1))), False), ("a sub-space", x2t1, OrderedDict((("x", 2),)), False))
    for mname in ("__eq__", "__ne__"):
        fi = S.methods.get(mname)
        if fi is None:
            rep.violation(R, S.module.relpath, S.fq, f"Space.{mname} is order-sensitive", "not overridden: Counter/dict equality ignores order", mname)
            continue
        rep.saw(fi)
        o = fi.params[1]
        for label, a, b, equal in sp_cases:
            want = equal if mname == "__eq__" else not equal
            fr = Evaluator(resolve_sp, on_call_sp).run(fi.node.body, {"self": a, o: b})
            if fr.ret is UNKNOWN or not fr.returned or not isinstance(fr.ret, bool):
                rep.undecided(R, fi.site(), fi.fq, f"Space.{mname} evaluable ({label})", repr(fr.ret)[:60])
                continue
            rep.check(R, fr.ret == want, fi.site(), fi.fq, f"Space.{mname} for {label} is {want} (order-sensitive comparison)", repr(fr.ret), f"{mname} {label}: {fr.ret!r}")
    fi = S.methods.get("__mul__")
    if fi is None:
        raise AnalysisError("Space.__mul__ vanished")
    rep.saw(fi)
    o = fi.params[1]
    for p in _ret_paths(fi):
        rep.check(R, dump(p.ret) == f"Space(self + {o})", fi.site(), fi.fq, "Space.__mul__ = Space(self + other) (left operand first, equal names merged)", dump(p.ret), dump(p.ret))
    fi = S.methods.get("dim")
    if fi is not None:
        rep.saw(fi)
        from collections import OrderedDict
        from ..absdom.listeval import Evaluator
        for dims in ((("x", 2), ("t", 1), ("u", 3)), (), (("a", 1),)):
            fr = Evaluator().run(fi.node.body, {"self": OrderedDict(dims)})
            want = sum(d for _, d in dims)
            if not isinstance(fr.ret, int) or isinstance(fr.ret, bool):
                rep.undecided(R, fi.site(), fi.fq, f"dim of {dict(dims)} evaluable", repr(fr.ret)[:60])
                continue
            rep.check(R, fr.ret == want, fi.site(), fi.fq, f"dim of {dict(dims)} == {want} (the sum of the variables' dimensions)", str(fr.ret), f"dim {dict(dims)} = {fr.ret}")
    # bases: Counter before OrderedDict is what makes `+` merge and keep order
    rep.check(R, [b.split(".")[-1] for b in S.ext_bases] == ["Counter", "OrderedDict"], S.module.relpath, S.fq, "Space(Counter, OrderedDict)", str(S.ext_bases), str(S.ext_bases))
    fi = S.methods.get("__contains__")
    if fi is not None:
        rep.saw(fi)
        o = fi.params[1]
        for p in _ret_paths(fi):
            if any(pol and "Space" in dump(g) for g, pol, k in p.guards):
                rep.check(R, dump(p.ret) in (f"self & {o} == {o}", f"{o} == self & {o}"), fi.site(p.ret_node), fi.fq, "sub-space test: self & space == space", dump(p.ret), dump(p.ret))


def r5_batch_axes(repo: Repo, rep):
    R = rep.rule("R-C12-5", "repeat / unsqueeze touch batch axes only and keep the space", floor=6,
                 why="repeating or inserting along the last axis changes the column layout under an unchanged space")
    P = repo.cls(PTS)
    fi = P.methods.get("repeat")
    if fi is None:
        raise AnalysisError("Points.repeat vanished")
    rep.saw(fi)
    # partial evaluation for tensors of rank 2..4 and 1..2 repeat counts: the underlying tensor is repeated with the given counts on the
    # leading axes and 1 on every other axis (the column axis included), under the same space
    from ..absdom.listeval import Evaluator, Obj, Opaque, UNKNOWN
    va = fi.node.args.vararg.arg if fi.node.args.vararg else (fi.params[1] if len(fi.params) > 1 else "n")
    for rank in (2, 3, 4):
        for counts in ((2,), (3, 2)):
            if len(counts) > rank - 1:
                continue
            shape = tuple(range(5, 5 + rank))
            seen = {}

            def on_call(e, name, args, kws, ev, f, seen=seen, rank=rank, shape=shape):
                if name in ("self._t.repeat",) or name.endswith(".repeat") and name.split(".")[0] in ("self", "data", "tensor"):
                    seen["repeat"] = list(args or [])
                    return Opaque("R")
                if name in ("torch.tile", "self._t.tile") and args:
                    reps = list(args[1] if name == "torch.tile" and len(args) > 1 else args[0] if name != "torch.tile" and isinstance(args[0], (list, tuple)) else args[(1 if name == "torch.tile" else 0):])
                    reps = [1] * (rank - len(reps)) + reps  # tile pads the missing factors with ones in FRONT
                    seen["repeat"] = reps
                    return Opaque("R")
                if name in ("self._t.dim", "self._t.ndimension"):
                    return rank
                if name == "Points" and args:
                    return ("Points", args[0], kws.get("space", args[1] if len(args) > 1 else None))
                return None
            T = Obj("self._t", {"shape": shape, "ndim": rank})
            fr = Evaluator(None, on_call).run(fi.node.body, {"self": Opaque("self"), va: tuple(counts)}, attrs={"self._t": T, "self._t.shape": shape, "self._t.ndim": rank, "self.space": Opaque("space")})
            got = fr.ret
            label = f"rank {rank}, repeat{counts}"
            want = list(counts) + [1] * (rank - len(counts))
            if not (isinstance(got, tuple) and got and got[0] == "Points") or "repeat" not in seen:
                rep.undecided(R, fi.site(), fi.fq, f"{label}: evaluable", repr(got)[:80])
                continue
            ok = seen["repeat"] == want and isinstance(got[1], Opaque) and got[1].tag == "R" and isinstance(got[2], Opaque) and got[2].tag == "space"
            rep.check(R, ok, fi.site(), fi.fq, f"{label}: self._t.repeat{tuple(want)} under self.space", f"repeat{tuple(seen['repeat'])}", f"{label}: repeat{tuple(seen['repeat'])}")
    fi = P.methods.get("unsqueeze")
    if fi is None:
        raise AnalysisError("Points.unsqueeze vanished")
    rep.saw(fi)
    d = fi.params[1]
    for p in _ret_paths(fi):
        c = _points_call(p.ret)
        neg = [pol for g, pol, k in p.guards if dump(g) == f"{d} < 0"]
        bound = any(k == "assert" and dump(g) == f"{d} < len(self._t.shape)" for g, pol, k in p.guards)
        good = c is not None and dump(c.args[1]) == "self.space" and bound and bool(neg)
        if good:
            want = f"self._t.unsqueeze({d} - 1)" if neg[0] else f"self._t.unsqueeze({d})"
            good = dump(c.args[0]).replace("dim=", "") == want
        rep.check(R, good, fi.site(p.ret_node), fi.fq, "new axis never after the column axis (negative dims shifted by one, dim < ndim asserted)", dump(p.ret), dump(p.ret))


def r6_empty_and_slices(repo: Repo, rep):
    R = rep.rule("R-C12-6", "isempty means no rows AND no columns (the join / concatenation short-cuts drop an operand on it); Space[name slice] equals "
                 "keys[index(start) : index(stop) : step] with open ends left open, for forward and backward steps; Space[[names]] lists exactly the names in the requested order", floor=16,
                 why="a zero-row Points with a real space is not empty: dropping it loses its columns; explicit default bounds break negative steps")
    P = repo.cls(PTS)
    fi = P.methods.get("isempty")
    if fi is None:
        raise AnalysisError("Points.isempty vanished")
    rep.saw(fi)
    n = 0
    for p in paths(fi.node):
        if p.ret is RAISE or p.ret is None:
            continue
        n += 1
        # collect the conjuncts of the returned condition (guards of short-circuit forms included)
        conj = []

        def flat(e):
            if isinstance(e, ast.BoolOp) and isinstance(e.op, ast.And):
                for v in e.values:
                    flat(v)
            else:
                conj.append(dump(e).replace(" ", ""))
        flat(p.ret)
        conj += [dump(g).replace(" ", "") for g, pol, k in p.guards if k == "if" and pol]
        if dump(p.ret) == "False":
            continue  # a short-circuit `return False` branch
        rows = any(c in ("len(self)==0", "0==len(self)", "len(self._t)==0", "self._t.shape[0]==0") for c in conj)
        cols = any(c in ("self.space.dim==0", "0==self.space.dim", "self._t.shape[-1]==0", "len(self.space)==0", "self.dim==0") for c in conj)
        rep.check(R, rows and cols, fi.site(p.ret_node), fi.fq, "isempty == (no rows) and (no columns)", f"conditions {conj}", f"isempty: {conj}")
    if n == 0:
        rep.undecided(R, fi.site(), fi.fq, "a returning path", "none")
    # Space.__getitem__ with name slices: partial evaluation on a four-variable space against the slice semantics of the key list
    from collections import OrderedDict
    from ..absdom.listeval import Evaluator, NotEval, UNKNOWN
    S = repo.cls(SPC)
    gi = S.methods.get("__getitem__")
    if gi is None:
        raise AnalysisError("Space.__getitem__ vanished")
    keys = ["a", "b", "c", "d"]
    space = OrderedDict((k, i + 1) for i, k in enumerate(keys))
    cases = [(None, None, None), ("b", None, None), (None, "c", None), ("b", "d", None), (None, None, -1), ("c", None, -1), (None, "b", -1), ("d", "a", -1), (None, None, 2), ("a", None, 2)]
    selections = [["c", "a"], ["d", "c", "b", "a"], ("b", "d", "a", "c"), ["a", "b", "c", "d"], ["b"]]
    for case in cases + selections:
        if isinstance(case, (list,)) or (isinstance(case, tuple) and all(isinstance(x, str) for x in case)):
            want = list(case)
            arg = case
            label = f"space[{case!r}]"
        else:
            st, sp, step = case
            idx = slice(keys.index(st) if st is not None else None, keys.index(sp) if sp is not None else None, step)
            want = keys[idx]
            arg = slice(st, sp, step)
            label = f"space['{st or ''}':'{sp or ''}':{step or ''}]"

        def on_call(e, name, args, kws, ev, f):
            if name == "Space" and args and isinstance(args[0], dict):
                return args[0]
            return None
        fr = Evaluator(None, on_call).run(gi.node.body, {"self": OrderedDict(space), gi.params[1]: arg})
        got = fr.ret
        if not isinstance(got, dict):
            rep.undecided(R, gi.site(), gi.fq, f"{label} evaluable", repr(got)[:80])
            continue
        ok = list(got.keys()) == want and all(got[k] == space[k] for k in want)
        rep.check(R, ok, gi.site(), gi.fq, f"{label} of (a, b, c, d) == {want}", f"{list(got.keys())}", f"{label}: {list(got.keys())}")


def r7_value_semantics(repo: Repo, rep):
    R = rep.rule("R-C12-7", "Space and Points define no in-place operator (__imul__, __ior__, __iadd__ ...) that changes the receiver: `S *= T` builds a new object", floor=2,
                 why="a space object is shared by every Points, domain and model built with it: updating it in place silently turns all of them into the product space")
    for cname, fqn in (("Space", SPC), ("Points", PTS)):
        ci = repo.cls(fqn)
        bad = []
        for name, fi in ci.methods.items():
            if not (name.startswith("__i") and name.endswith("__") and name not in ("__init__", "__iter__", "__init_subclass__", "__instancecheck__", "__int__", "__index__", "__invert__")):
                continue
            rep.saw(fi)
            returns_self = any(isinstance(r, ast.Return) and isinstance(r.value, ast.Name) and r.value.id == "self" for r in ast.walk(fi.node))
            mutates = any(isinstance(c, ast.Call) and isinstance(c.func, ast.Attribute) and dump(c.func.value) == "self" and c.func.attr in ("update", "__setitem__", "pop", "clear", "setdefault", "subtract")
                          for c in ast.walk(fi.node)) or any(isinstance(t, (ast.Subscript, ast.Attribute)) and dump(t).startswith("self") for a in ast.walk(fi.node) if isinstance(a, (ast.Assign, ast.AugAssign))
                                                            for t in (a.targets if isinstance(a, ast.Assign) else [a.target]))
            if returns_self or mutates:
                bad.append(name)
        rep.check(R, not bad, ci.module.relpath, ci.fq, "no receiver-changing in-place operator", f"defines {bad}", f"{cname}: {bad}")


def r9_iteration_is_indexing(repo: Repo, rep):
    R = rep.rule("R-C12-9", "iterating Points yields self[i] for i = 0 .. first axis: the items are produced by __getitem__, the one place that decides which axes a single row keeps", floor=1,
                 why="Points(row.unsqueeze(0), space) gives every item of a table with two batch axes the shape (1, b, d) instead of (b, d): list(p)[i] != p[i], and the table cannot be rebuilt from its items")
    P = repo.cls(PTS)
    fi = P.methods.get("__iter__")
    if fi is None:
        rep.ok(R, P.module.relpath, P.fq, "no __iter__: iteration falls back to __getitem__ with 0, 1, ..", "-")
        return
    rep.saw(fi)
    ys = [n for n in ast.walk(fi.node) if isinstance(n, (ast.Yield, ast.YieldFrom))]
    if not ys:
        rep.undecided(R, fi.site(), fi.fq, "a generator of items", "no yield")
        return
    for y in ys:
        v = y.value
        if isinstance(v, ast.Name):
            defs = [a.value for a in ast.walk(fi.node) if isinstance(a, ast.Assign) and any(isinstance(t, ast.Name) and t.id == v.id for t in a.targets)]
            v = defs[0] if len(defs) == 1 else v
        if isinstance(y, ast.YieldFrom) and isinstance(v, ast.GeneratorExp):
            v = v.elt
        ok = isinstance(v, ast.Subscript) and dump(v.value) == "self"
        rep.check(R, ok, fi.site(y), fi.fq, "every item is self[index]", dump(v)[:80] if v is not None else "None", dump(v)[:80] if v is not None else "None")


def r8_no_derived_state(repo: Repo, rep):
    R = rep.rule("R-C12-8", "a Points object stores its tensor and its space, nothing derived from them; Space keeps Counter's `&` (the sub-space test compares its plain-Counter result, "
                 "order-insensitively); Points.joined refuses operands that share a variable", floor=5,
                 why="a memoised `coordinates` dict survives .to() / __setitem__ and goes stale; a Space-typed `&` makes `y*x in x*y*t` False; joining Points that share a name labels the wrong columns")
    P, S = repo.cls(PTS), repo.cls(SPC)
    for name, fi in P.methods.items():
        stores = sorted({dump(t) for a in ast.walk(fi.node) if isinstance(a, (ast.Assign, ast.AugAssign, ast.AnnAssign)) for tt in (a.targets if isinstance(a, ast.Assign) else [a.target])
                         for t in ast.walk(tt) if isinstance(t, ast.Attribute) and isinstance(t.ctx, ast.Store) and dump(t.value) == "self"})
        if not stores:
            continue
        rep.saw(fi)
        extra = [t for t in stores if t not in ("self._t", "self.space")]
        rep.check(R, not extra, fi.site(), fi.fq, "only self._t / self.space are assigned", f"also {extra}", f"Points.{name} stores {extra}")
    cont = S.methods.get("__contains__")
    if cont is not None:
        rep.saw(cont)
        uses_and = any(isinstance(b, ast.BinOp) and isinstance(b.op, ast.BitAnd) for b in ast.walk(cont.node))
        own_and = [m for m in ("__and__", "__rand__") if m in S.methods]
        rep.check(R, not (uses_and and own_and), cont.site(), cont.fq, "`self & space` in the sub-space test is Counter's intersection (a plain Counter, compared order-insensitively)",
                  f"Space defines {own_and}: the intersection is a Space and `==` becomes order-sensitive", f"Space defines {own_and}")
    jo = P.methods.get("joined")
    if jo is None:
        raise AnalysisError("Points.joined vanished")
    rep.saw(jo)
    guards = [a for a in ast.walk(jo.node) if isinstance(a, ast.Assert) and any(isinstance(c, ast.Call) and isinstance(c.func, ast.Attribute) and c.func.attr == "isdisjoint" for c in ast.walk(a.test))]
    raising = [i for i in ast.walk(jo.node) if isinstance(i, ast.If) and any(isinstance(c, ast.Call) and isinstance(c.func, ast.Attribute) and c.func.attr == "isdisjoint" for c in ast.walk(i.test))
               and any(isinstance(x, ast.Raise) for x in ast.walk(i))]
    rep.check(R, bool(guards or raising), jo.site(), jo.fq, "the accumulated space and the next operand's space are asserted disjoint", "no such test", "joined without disjointness test")


def run(repo: Repo, rep):
    r7_value_semantics(repo, rep)
    r8_no_derived_state(repo, rep)
    r9_iteration_is_indexing(repo, rep)
    r6_empty_and_slices(repo, rep)
    r1_pairing(repo, rep)
    r2_slices(repo, rep)
    r3_selection(repo, rep)
    r4_algebra(repo, rep)
    r5_batch_axes(repo, rep)


_P = "src/torchphysics/problem/spaces/points.py"
_S = "src/torchphysics/problem/spaces/space.py"
MUTANTS = [
    dict(id="C12-M61", file="src/torchphysics/problem/spaces/points.py", old="        if was_tuple:\n", new="        if False:\n", rule="R-C12-3", what="tuple keys handed on as lists (the repaired defect)"),
    dict(id="C12-M60", file="src/torchphysics/problem/spaces/points.py", old="        if isinstance(val, (tuple, list)):", new="        if isinstance(val, tuple):", rule="R-C12-3", what="list keys modified in place (the repaired defect)"),
    dict(id="C12-M1", file=_P, old="torch.cat([self._t, other._t], dim=-1), self.space * other.space", new="torch.cat([self._t, other._t], dim=-1), other.space * self.space", rule="R-C12-1", what="space product swapped in join"),
    dict(id="C12-M2", file=_P, old="                    for var in out_space:\n                        out_idxs += rng[slc[var]]", new="                    for var in self.space:\n                        if var in out_space:\n                            out_idxs += rng[slc[var]]", rule="R-C12-3", what="columns in storage order"),
    dict(id="C12-M3", file=_P, old="            start += self.space[v]", new="            start += 1", rule="R-C12-2", what="offset advances by one"),
    dict(id="C12-M4", file=_S, old="        return OrderedDict.__eq__(self, o)", new="        return dict.__eq__(self, o)", rule="R-C12-4", what="order-insensitive equality"),
    dict(id="C12-M5", file=_S, old="        return Space(self + other)", new="        return Space(other + self)", rule="R-C12-4", what="product order swapped"),
    dict(id="C12-M6", file=_P, old="            space_out = space_out * points.space", new="            space_out = points.space * space_out", rule="R-C12-1", what="joined space reversed"),
    dict(id="C12-M7", file=_P, old="        return Points(self._t - other._t, self.space)", new="        return Points(other._t - self._t, self.space)", rule="R-C12-4", what="subtraction reversed"),
    dict(id="C12-M8", file=_P, old="        if dim < 0:\n            dim -= 1\n", new="", rule="R-C12-5", what="negative unsqueeze hits the column axis"),
    dict(id="C12-M9", file=_P, old="        val, space = self._compute_slice(key)\n        assert space == points.space\n", new="        val, space = self._compute_slice(key)\n", rule="R-C12-3", what="assignment without space check"),
]
TWINS = [
    dict(id="C12-T1", file=_P, old="                    out_idxs = []\n                    for var in out_space:\n                        out_idxs += rng[slc[var]]\n                    val[-1] = out_idxs",
         new="                    val[-1] = [i for var in out_space for i in rng[slc[var]]]", what="comprehension over the sub-space"),
    dict(id="C12-T2", file=_P, old="        return Points(torch.cat([self._t, other._t], dim=0), self.space)", new="        stacked = torch.cat((self._t, other._t), dim=0)\n        return Points(stacked, self.space)", what="temporary, tuple"),
]

"""C14 — conditions are isolated from each other and repeatable."""
from __future__ import annotations

import ast
from typing import Dict, List, Set

from ..effects import MUTATORS, mutable_defaults, param_writes, resolve_callee
from ..flow import RAISE, attr_chain, def_id, dump, kwarg, paths
from ..repo import AnalysisError, ClassInfo, Repo
from ..util import ends

EXPLANATION = (
    "Interprocedural effect analysis: for every function the set of parameters whose object it may modify in place is computed "
    "(subscript stores, container mutators, in-place tensor methods, attribute stores on the parameter) and closed over resolved "
    "calls; no Condition constructor may write into a container it was given, no mutable default may be written (writes under an "
    "isinstance guard that excludes the default's type are discounted), constructors call no state-changing method on user objects, "
    "no module-level cache is written by wrapper/condition construction, the periodic condition keeps left and right data in "
    "distinct containers built from their own samplers, and forward() writes only an allow-listed state set."
)
ASSUMPTIONS = [
    "receivers that cannot be resolved statically (user objects) are assumed not to write their arguments",
    "numerical repeatability of the loss is not decided",
]
COND = "problem.conditions.condition"
ANCHORED = ("conditions.", "samplers.sampler_base", "utils.user_fun")
# one named symbol per exception, with the reason
ALLOW_DEFAULT_ALIAS = {
    ("torchphysics.utils.user_fun.UserFunction._transform_to_user_function", "defaults"):
        "stored only; when the shared default {} is stored (non-callable fun) self.args is {} as well, so set_default can add no key",
    ("torchphysics.utils.user_fun.UserFunction._transform_to_user_function", "args"):
        "stored only; never mutated in place (rebinding in _set_input_args_for_function)",
}


def r1_r2_effects(repo: Repo, rep):
    R1 = rep.rule("R-C14-1", "no Condition constructor (or anything it reaches) writes into a container received as constructor argument", floor=14,
                  why="two conditions built from one user dictionary then see each other's wrapped / pre-evaluated functions")
    R2 = rep.rule("R-C14-2", "G-MUT: no mutable default argument is written by its function or a callee (writes under an isinstance guard excluding the default's type discounted)",
                  floor=20, why="a mutated default is shared by every later call that relies on the default")
    pw = param_writes(repo)
    excl = param_writes.excluded
    cond = repo.cls(f"{COND}.Condition")
    for ci in repo.subclasses(cond):
        init = ci.methods.get("__init__")
        if init is None:
            continue
        rep.saw(init)
        w = {p: ev for p, ev in pw.get(init.fq, {}).items() if p not in ("self",)}
        bad = {p: ev[0] for p, ev in w.items()}
        rep.check(R1, not bad, init.site(), init.fq, "constructor arguments are only read",
                  "; ".join(f"`{p}`: {e[:160]}" for p, e in bad.items()), "; ".join(f"{p}: {e.split('(')[0][:80]}" for p, e in sorted(bad.items())))
    thorough = rep.tier == "thorough"
    n = 0
    for fi in repo.all_functions():
        md = mutable_defaults(fi)
        if not md:
            continue
        if not thorough and not any(a in fi.module.name for a in ANCHORED):
            continue
        rep.saw(fi)
        for p, d in md.items():
            n += 1
            ev = pw.get(fi.fq, {}).get(p)
            if ev:
                cls = dump(d).split(".")[0].split("(")[0]
                ex = excl.get(fi.fq, {}).get(p, [None])
                if all(x == cls for x in ex):
                    ev = None  # every write happens only when the value is NOT of the default's class
            rep.check(R2, not ev, fi.site(), fi.fq, f"default `{p}={dump(d)}` is never written", (ev or [""])[0][:200], f"{p}: " + (ev or [""])[0].split("(")[0][:80])
    rep.extra["mutable_defaults_checked"] = n
    # defaults stored on self and mutated in place later
    for fi in repo.all_functions():
        if fi.cls is None:
            continue
        md = mutable_defaults(fi)
        if not md or (not thorough and not any(a in fi.module.name for a in ANCHORED)):
            continue
        stored = {}
        for node in ast.walk(fi.node):
            if isinstance(node, ast.Assign) and isinstance(node.value, ast.Name) and node.value.id in md:
                for t in node.targets:
                    if isinstance(t, ast.Attribute) and isinstance(t.value, ast.Name) and t.value.id == "self":
                        stored[t.attr] = node.value.id
        # helper functions receiving the default by name and storing it
        for attr, p in stored.items():
            writers = []
            for c in repo.mro(fi.cls) + repo.subclasses(fi.cls, strict=True):
                for m in c.methods.values():
                    for node in ast.walk(m.node):
                        if isinstance(node, ast.Call) and isinstance(node.func, ast.Attribute) and node.func.attr in MUTATORS and dump(node.func.value) == f"self.{attr}":
                            writers.append(f"{c.name}.{m.name}: {dump(node)[:60]}")
                        if isinstance(node, (ast.Assign, ast.AugAssign)):
                            for t in (node.targets if isinstance(node, ast.Assign) else [node.target]):
                                if isinstance(t, ast.Subscript) and dump(t.value) == f"self.{attr}":
                                    writers.append(f"{c.name}.{m.name}: {dump(node)[:60]}")
            key = (fi.fq, p)
            if writers and key in ALLOW_DEFAULT_ALIAS:
                rep.ok(R2, fi.site(), fi.fq, f"default `{p}` stored as self.{attr}", f"allow-listed: {ALLOW_DEFAULT_ALIAS[key]}")
            else:
                rep.check(R2, not writers, fi.site(), fi.fq, f"default `{p}` stored as self.{attr} is never mutated in place by a method", f"{writers[:2]}", f"self.{attr} <- default {p}; " + "; ".join(writers[:2]))


def r1b_setup(repo: Repo, rep):
    R = rep.rule("R-C14-1b", "_setup_data_functions returns a NEW mapping of wrapped functions; pre-evaluation happens only for StaticSampler (fixed points)", floor=3,
                 why="pre-evaluating for a sampler whose points change pairs stale function values with fresh points")
    cond = repo.cls(f"{COND}.Condition")
    fi = cond.methods.get("_setup_data_functions")
    if fi is None:
        raise AnalysisError("Condition._setup_data_functions vanished")
    rep.saw(fi)
    dfp, smp = fi.params[1], fi.params[2]
    for p in paths(fi.node):
        if p.ret is RAISE:
            continue
        r = p.ret
        fresh = r is not None and not (isinstance(r, ast.Name) and r.id == dfp)
        rep.check(R, fresh, fi.site(p.ret_node), fi.fq, "returns a fresh container (not the caller's object)", dump(r)[:80], dump(r)[:80])
        pre = [e for e in p.events if e.value is not None and f"{smp}.sample_points()" in dump(e.value)]
        static_guard = [pol for g, pol, k in p.guards if isinstance(g, ast.Call) and attr_chain(g.func) == "isinstance" and dump(g.args[0]) == smp]
        gtypes = [dump(g.args[1]) for g, pol, k in p.guards if isinstance(g, ast.Call) and attr_chain(g.func) == "isinstance" and dump(g.args[0]) == smp and pol]
        if pre:
            rep.check(R, gtypes == ["StaticSampler"], fi.site(), fi.fq, "pre-evaluation only under isinstance(sampler, StaticSampler)", f"guard types {gtypes}", f"pre-evaluation for {gtypes}")
            # ... and only when that sampler keeps its points for ever: a static sampler with a finite resample_interval draws a new set later
            never = any(pol == want for g, pol, k in p.guards for want, forms in ((True, (f"{smp}.resample_interval == math.inf", f"math.inf == {smp}.resample_interval", f"math.isinf({smp}.resample_interval)",
                                                                                          f"{smp}.resample_interval == float('inf')", f"{smp}.resample_interval == torch.inf", f"{smp}.resample_interval == np.inf")),
                                                                                  (False, (f"math.isfinite({smp}.resample_interval)", f"{smp}.resample_interval < math.inf", f"{smp}.resample_interval != math.inf")))
                        if dump(g) in forms)
            rep.check(R, never, fi.site(), fi.fq, "pre-evaluation only when the static sampler never resamples (resample_interval is infinite)",
                      f"guards {[(dump(g)[:50], pol) for g, pol, k in p.guards if k == 'if']}", "pre-evaluated data for a static sampler that resamples")
            calls = {def_id(c) for e in pre for c in ast.walk(e.value) if isinstance(c, ast.Call) and dump(c) == f"{smp}.sample_points()"}
        # the returned mapping: a literal built in this call whose keyed entries are UserFunction(<something derived from the same key>)
        entries = []

        def collect(d):
            for k, v in zip(d.keys, d.values):
                if k is None and isinstance(v, ast.Dict):
                    collect(v)
                elif k is not None:
                    entries.append((k, v))
        if isinstance(r, ast.Dict):
            collect(r)
        wrapped = [(k, v) for k, v in entries if isinstance(v, ast.Call) and ends(attr_chain(v.func), "UserFunction")]
        rep.check(R, bool(wrapped) and len(wrapped) == len(entries), fi.site(), fi.fq, "every entry is wrapped in a UserFunction under its own key",
                  f"{len(wrapped)} of {len(entries)} keyed entries wrapped; returns {dump(r)[:80]}", "wrap")
        for k, v in wrapped:
            key = dump(k)
            inner = v.args[0] if v.args else None
            ok = inner is not None and any(isinstance(n, ast.Subscript) and dump(n.slice) == key for n in ast.walk(inner))
            rep.check(R, ok, fi.site(), fi.fq, "entry `k` is built from entry `k`", f"{key}: {dump(v)[:100]}", f"{key}: {dump(v)[:100]}")


def r3_periodic(repo: Repo, rep):
    R = rep.rule("R-C14-3", "PeriodicCondition: left and right data functions are two distinct containers, each built from its own side's sampler", floor=3,
                 why="one shared container makes the right side overwrite the left side's pre-evaluated data")
    pc = repo.cls(f"{COND}.PeriodicCondition")
    init = pc.methods.get("__init__")
    if init is None:
        raise AnalysisError("PeriodicCondition.__init__ vanished")
    rep.saw(init)
    setup = repo.cls(f"{COND}.Condition").methods.get("_setup_data_functions")
    fresh = all((q.ret is not None and not (isinstance(q.ret, ast.Name) and q.ret.id == setup.params[1])) for q in paths(setup.node) if q.ret is not RAISE)
    for p in paths(init.node, expand_self=False):
        if p.ret is RAISE:
            continue
        l, r = p.attrs.get("self.left_data_functions"), p.attrs.get("self.right_data_functions")
        if l is None or r is None:
            rep.violation(R, init.site(), init.fq, "left/right data functions are set", "missing", "missing")
            continue
        two_calls = isinstance(l, ast.Call) and isinstance(r, ast.Call) and def_id(l) != def_id(r) and dump(l.func) == dump(r.func) == "self._setup_data_functions"
        distinct = two_calls and fresh
        rep.check(R, distinct, init.site(), init.fq, "two _setup_data_functions evaluations, each returning its own container",
                  f"left = {dump(l)[:70]}, right = {dump(r)[:70]}; helper returns a fresh container: {fresh}", "left/right containers")
        if two_calls:
            src_ok = bool(l.args) and bool(r.args) and isinstance(l.args[0], ast.Name) and l.args[0].id in init.params and dump(r.args[0]) == dump(l.args[0])
            rep.check(R, src_ok, init.site(), init.fq, "both sides are set up from the user's data functions (not from the other side's, possibly pre-evaluated, container)",
                      f"left from {dump(l.args[0])[:50] if l.args else '-'}, right from {dump(r.args[0])[:50] if r.args else '-'}", "a side set up from the other side's container")
            ls, rs = dump(l.args[1]), dump(r.args[1])
            ok = "self.left_sampler" in ls and "self.right_sampler" in rs and "self.right_sampler" not in ls and "self.left_sampler" not in rs
            rep.check(R, ok, init.site(), init.fq, "left data from the left sampler, right data from the right sampler", f"{ls[:70]} | {rs[:70]}", f"{ls[:60]}|{rs[:60]}")
        break
    # typestate of the static side samplers: forward draws them WITHOUT parameters; a StaticSampler caches its first draw,
    # so the constructor must not draw them (directly or inside a composite sampler) with parameters
    fw0 = pc.methods.get("forward")
    drawn_in_forward = {dump(c.func.value) for c in ast.walk(fw0.node) if isinstance(c, ast.Call) and isinstance(c.func, ast.Attribute) and c.func.attr == "sample_points"}
    for p in paths(init.node, expand_self=False):
        if p.ret is RAISE:
            continue
        polluted = []
        for e in p.events:
            if e.value is None:
                continue
            for c in ast.walk(e.value):
                if isinstance(c, ast.Call) and dump(c.func) == "self._setup_data_functions" and len(c.args) == 2:
                    samp = c.args[1]
                    will_draw = isinstance(samp, ast.Call) and isinstance(samp.func, ast.Attribute) and samp.func.attr == "make_static"
                    inner = [s for s in drawn_in_forward if s in dump(samp) and s != dump(samp)]
                    static_inner = [s for s in inner if p.attrs.get(s) is not None and "make_static" in dump(p.attrs.get(s))]
                    if will_draw and static_inner:
                        polluted.append(f"{static_inner[0]} is drawn inside `{dump(samp)[:60]}` during construction")
        polluted = sorted(set(polluted))
        static_path = any(pol and "is_static" in dump(g) for g, pol, k in p.guards)
        rep.check(R, not polluted, init.site(), init.fq, "static samplers that forward draws without parameters are not drawn with parameters during construction"
                  + (" (static non-periodic sampler)" if static_path else ""), "; ".join(polluted)[:200], "; ".join(polluted)[:160])
    fw = pc.methods.get("forward")
    rep.saw(fw)
    # the argument each side's data function is evaluated on must be derived from that side's sampler draw and not the other's
    for p in paths(fw.node, expand_self=False):
        if p.ret is RAISE:
            continue
        seen = {}
        for e in p.events:
            if e.value is None:
                continue
            for c in ast.walk(e.value):
                if isinstance(c, ast.Call) and isinstance(c.func, ast.Subscript) and dump(c.func.value) in ("self.left_data_functions", "self.right_data_functions") and c.args:
                    seen.setdefault(dump(c.func.value).split(".")[1].split("_")[0], set()).add(dump(c.args[0]))
        ok = set(seen) == {"left", "right"}
        detail = "left/right data-function evaluations not found"
        if ok:
            for side, other in (("left", "right"), ("right", "left")):
                for a in seen[side]:
                    if f"self.{side}_sampler.sample_points" not in a or f"self.{other}_sampler" in a:
                        ok = False
                        detail = f"{side} data evaluated on {a[:120]}"
        rep.check(R, ok, fw.site(), fw.fq, "forward evaluates left data on left coordinates and right data on right coordinates", detail, "forward pairing")
        # the mapping that receives the `_left` / `_right` suffix holds only that side's data (two names for one dict would mix them)
        mixed = []
        for e in p.events:
            if e.value is None:
                continue
            for d in ast.walk(e.value):
                if not (isinstance(d, ast.Dict) and len(d.keys) == 1 and isinstance(d.keys[0], ast.JoinedStr)):
                    continue
                lit = "".join(x.value for x in d.keys[0].values if isinstance(x, ast.Constant) and isinstance(x.value, str))
                side = "left" if "left" in lit else "right" if "right" in lit else None
                src = d.values[0].value if isinstance(d.values[0], ast.Subscript) else None
                if side is None or not isinstance(src, ast.Dict):
                    continue
                for v in src.values:
                    if isinstance(v, ast.Call) and isinstance(v.func, ast.Subscript) and "data_functions" in dump(v.func.value) and f"{side}_data_functions" not in dump(v.func.value):
                        mixed.append(f"`{lit}` entries built from {dump(v.func.value)}")
        mixed = sorted(set(mixed))
        rep.check(R, not mixed, fw.site(), fw.fq, "the data renamed for one side stems from that side's data functions only", "; ".join(mixed)[:200], "; ".join(mixed)[:160])
        break


FORWARD_ALLOWED = {"last_unreduced_loss", "iterator"}
MUTATING_CALLS = ("make_static", "set_length", "set_volume", "set_bounding_box", "set_default", "remove_default", "set_necessary_variables", "requires_grad_", "to", "cuda")


def r4_forward_and_ctor_calls(repo: Repo, rep):
    R = rep.rule("R-C14-4", "forward() writes only {last_unreduced_loss, iterator} on the condition and nothing on user objects; constructors call no "
                 "state-changing method on the objects they are given", floor=20,
                 why="evaluating or constructing one condition must not change what another one that shares the sampler/domain computes")
    cond = repo.cls(f"{COND}.Condition")
    for ci in repo.subclasses(cond):
        fw = ci.methods.get("forward")
        if fw is not None:
            rep.saw(fw)
            bad = []
            for p in paths(fw.node, expand_self=False):
                for e in p.events:
                    if e.kind in ("attr", "aug") and e.target is not None:
                        t = dump(e.target)
                        if t.startswith("self.") and t.count(".") == 1 and t[5:] in FORWARD_ALLOWED:
                            continue
                        bad.append(dump(e.node)[:70])
                    if e.kind == "store" and e.raw is not None:
                        root = dump(e.raw.value)
                        if root.startswith("self."):
                            bad.append(dump(e.node)[:70])
            bad = sorted(set(bad))
            rep.check(R, not bad, fw.site(), fw.fq, "forward writes only last_unreduced_loss / iterator", str(bad[:2]), str(bad[:2]))
        init = ci.methods.get("__init__")
        if init is not None:
            rep.saw(init)
            params = set(init.params[1:])
            bad = []
            for p in paths(init.node, expand_self=False):
                for e in p.events:
                    if e.value is None:
                        continue
                    for c in ast.walk(e.value):
                        if isinstance(c, ast.Call) and isinstance(c.func, ast.Attribute) and c.func.attr in MUTATING_CALLS:
                            recv = c.func.value
                            root = recv
                            while isinstance(root, ast.Attribute):
                                root = root.value
                            direct_param = isinstance(recv, ast.Name) and recv.id in params
                            via_self = isinstance(recv, ast.Attribute) and isinstance(recv.value, ast.Name) and recv.value.id == "self" and dump(p.attrs.get(f"self.{recv.attr}")) in params
                            if direct_param or via_self:
                                bad.append(f"{dump(c)[:60]}")
            bad = sorted(set(bad))
            rep.check(R, not bad, init.site(), init.fq, "no state-changing method is called on a constructor argument", str(bad[:2]), str(bad[:2]))


GLOBAL_SETTERS = ("torch.set_grad_enabled", "torch.set_default_dtype", "torch.set_default_device", "torch.manual_seed", "torch.seed", "torch.use_deterministic_algorithms",
                  "torch.set_default_tensor_type", "torch.autograd.set_grad_enabled", "torch.set_printoptions", "torch.set_num_threads", "np.random.seed", "random.seed")


def r4c_no_process_wide_switch(repo: Repo, rep):
    R = rep.rule("R-C14-4c", "conditions, samplers and user-function wrappers flip no process-wide switch (grad mode, default dtype, seeds) except as a `with` context", floor=30,
                 why="torch.set_grad_enabled(False) as a statement stays in force after the call: every condition evaluated afterwards builds no graph")
    for name, m in repo.modules.items():
        if not (".conditions." in name or ".samplers." in name or name.endswith(".user_fun") or ".spaces." in name):
            continue
        for ci in m.classes.values():
            for fi in ci.methods.values():
                in_with = {id(c) for w in ast.walk(fi.node) if isinstance(w, ast.With) for it in w.items for c in ast.walk(it.context_expr)}
                bad = [dump(c)[:60] for c in ast.walk(fi.node) if isinstance(c, ast.Call) and attr_chain(c.func) in GLOBAL_SETTERS and id(c) not in in_with]
                rep.saw(fi)
                rep.check(R, not bad, fi.site(), fi.fq, "no process-wide state is set", str(bad[:2]), f"global switch {bad[:1]}")


def r4b_containers_copied(repo: Repo, rep):
    R = rep.rule("R-C14-4b", "data sets that re-order their data in place (shuffle) do so on their own container: a list handed in by the user is copied first", floor=1,
                 why="`self.data = data` followed by `self.data[i] = data[i][perm]` writes the permuted entries into the user's list: a second loader built from it sees them")
    seen = 0
    for name, m in repo.modules.items():
        if ".utils.data." not in name:
            continue
        for ci in m.classes.values():
            init = ci.methods.get("__init__")
            if init is None:
                continue
            params = set(init.params[1:])
            stores_any = False
            bad = []
            for p in paths(init.node, expand_self=False):
                if p.ret is RAISE:
                    continue
                for e in p.events:
                    if e.kind == "store" and e.raw is not None and isinstance(e.raw.value, ast.Attribute) and dump(e.raw.value.value) == "self":
                        stores_any = True
                        held = p.attrs.get(dump(e.raw.value))
                        if isinstance(held, ast.Name) and held.id in params:
                            bad.append(f"{dump(e.raw.value)} is the caller's `{held.id}`; {dump(e.node)[:60]}")
            if not stores_any:
                continue
            seen += 1
            rep.saw(init)
            bad = sorted(set(bad))
            rep.check(R, not bad, init.site(), init.fq, "in-place stores go to a container created by the constructor", str(bad[:2]), str(bad[:2]))
    if seen == 0:
        rep.undecided(R, "src/torchphysics/utils/data", "data sets", "a constructor that stores into its data container", "none found")


def r6_sampler_builders_are_pure(repo: Repo, rep):
    R = rep.rule("R-C14-6", "methods that build a sampler FROM a sampler (make_static of a non-static sampler, `*`, `+`, append) write nothing on the sampler they are called on", floor=4,
                 why="the same sampler object is handed to several conditions: a product that makes its own factors static when one condition asks for a static copy freezes the points of every other condition")
    base = repo.cls("problem.samplers.sampler_base.PointSampler")
    for ci in repo.subclasses(base, strict=False):
        for mname in ("make_static", "__mul__", "__add__", "append", "__rmul__", "__radd__"):
            fi = ci.methods.get(mname)
            if fi is None:
                continue
            if mname == "make_static" and ci.name == "StaticSampler":
                continue  # a static sampler re-configures its own interval
            rep.saw(fi)
            me = fi.params[0] if fi.params else "self"
            writes = []
            for n in ast.walk(fi.node):
                tg = n.targets if isinstance(n, ast.Assign) else [n.target] if isinstance(n, (ast.AugAssign, ast.AnnAssign)) else n.targets if isinstance(n, ast.Delete) else []
                for t in tg:
                    for x in ast.walk(t):
                        if isinstance(x, ast.Attribute) and isinstance(x.value, ast.Name) and x.value.id == me and isinstance(x.ctx, (ast.Store, ast.Del)):
                            writes.append(f"{me}.{x.attr}")
                if isinstance(n, ast.Call) and attr_chain(n.func) == "setattr" and n.args and dump(n.args[0]) == me:
                    writes.append(dump(n)[:40])
            rep.check(R, not writes, fi.site(), fi.fq, "no attribute of the sampler is written", str(sorted(set(writes))), str(sorted(set(writes))))


def r5_module_state(repo: Repo, rep):
    R = rep.rule("R-C14-5", "wrapping user functions / constructing conditions writes no module-level state (no global cache keyed by less than the whole function)", floor=3,
                 why="a process-wide cache makes a wrapper's behaviour depend on which other wrappers were built before it")
    for modname in ("utils.user_fun", COND, "problem.conditions.deeponet_condition"):
        m = repo.module(modname)
        globs = set()
        for st in m.tree.body:
            if isinstance(st, ast.Assign):
                for t in st.targets:
                    if isinstance(t, ast.Name) and isinstance(st.value, (ast.Dict, ast.List, ast.Set, ast.Call)):
                        globs.add(t.id)
        bad = []
        funcs = list(m.functions.values()) + [f for c in m.classes.values() for f in c.methods.values()]
        for fi in funcs:
            rep.saw(fi)
            for d in fi.decorators:
                if any(k in d for k in ("lru_cache", "functools.cache", "cache(", "memoize")):
                    bad.append(f"{fi.qual}: @{d}")
            for n in ast.walk(fi.node):
                if isinstance(n, ast.Global):
                    bad.append(f"{fi.qual}: global {n.names}")
                if isinstance(n, (ast.Assign, ast.AugAssign)):
                    for t in (n.targets if isinstance(n, ast.Assign) else [n.target]):
                        if isinstance(t, ast.Subscript) and isinstance(t.value, ast.Name) and t.value.id in globs:
                            bad.append(f"{fi.qual}: {dump(n)[:60]}")
                if isinstance(n, ast.Call) and isinstance(n.func, ast.Attribute) and n.func.attr in MUTATORS and isinstance(n.func.value, ast.Name) and n.func.value.id in globs:
                    bad.append(f"{fi.qual}: {dump(n)[:60]}")
        rep.check(R, not bad, m.relpath, m.name, "no function of the module writes module-level containers", str(bad[:2]), str(bad[:2]))


def r4d_points_cast_in_place(repo: Repo, rep):
    R = rep.rule("R-C14-4d", "samplers, conditions and data sets never cast user-supplied Points to another dtype: Points.to() works IN PLACE on the object the user holds "
                 "(device moves keep the values and are allowed)", floor=1,
                 why="`self.points = self.points.to(torch.get_default_dtype())` silently rounds the user's float64 data: a DataCondition sharing that Points object changes its loss")
    import re
    n = 0
    for name, m in repo.modules.items():
        if not any(k in name for k in (".problem.samplers.", ".problem.conditions.", ".utils.data.")):
            continue
        funcs = [fi for ci in m.classes.values() for fi in ci.methods.values()]
        for fi in funcs:
            for c in ast.walk(fi.node):
                if not (isinstance(c, ast.Call) and isinstance(c.func, ast.Attribute) and c.func.attr in ("to", "type", "float", "double", "half")):
                    continue
                recv = dump(c.func.value)
                if not re.search(r"(^|\.)(\w*points\w*)$", recv):
                    continue  # receivers that hold Points by the naming of the package (self.points, points, data_points[i], ...)
                n += 1
                rep.saw(fi)
                args = [dump(a) for a in c.args] + [dump(k.value) for k in c.keywords if k.arg in ("dtype", None)]
                casting = c.func.attr in ("float", "double", "half", "type") or any("dtype" in a or re.search(r"torch\.(float|double|half|bfloat|int|long)", a) for a in args)
                rep.check(R, not casting, fi.site(c), fi.fq, "a device move only", f"dtype cast: {dump(c)[:70]}", f"{fi.name}: {dump(c)[:60]}")
    if n == 0:
        rep.undecided(R, "src/torchphysics", "-", ".to(..) calls on stored Points", "none found")


def run(repo: Repo, rep):
    from .c08 import r4_purity_and_label  # conditions share one model: its forward must store nothing decided from one condition's points
    r4_purity_and_label(repo, rep)
    r6_sampler_builders_are_pure(repo, rep)
    from .c15 import r1b_no_cache  # a sampler shared by several conditions serves each evaluation a fresh draw for ITS parameters: a stored draw is handed to the next condition
    r1b_no_cache(repo, rep)
    from .c04 import r6_track  # evaluating a condition marks only its own coordinate copies as differentiable, never the (shared, cached) points of the sampler
    r6_track(repo, rep)
    from .c02 import r4_algebra  # a shared sampler's recorded length is its own point count, whatever parameters one evaluation passed
    r4_algebra(repo, rep)
    r1_r2_effects(repo, rep)
    r1b_setup(repo, rep)
    r3_periodic(repo, rep)
    r4_forward_and_ctor_calls(repo, rep)
    r4b_containers_copied(repo, rep)
    r4d_points_cast_in_place(repo, rep)
    r4c_no_process_wide_switch(repo, rep)
    r5_module_state(repo, rep)
    from .c13 import r5_copy_on_partial, r6_no_alias  # calling a data function must not write the shared coordinate mapping / wrapper state
    r5_copy_on_partial(repo, rep)
    r6_no_alias(repo, rep)
    from .c15 import r1_static  # repeated evaluation with a static sampler returns the cached points
    r1_static(repo, rep)
    from .c13 import r4_defaults_alignment  # every wrapper owns its defaults mapping (assigned per wrapper, never the constructor's shared default object)
    r4_defaults_alignment(repo, rep)
    from .c09 import r4_branch_cache  # conditions sharing one DeepONet: the branch features in use belong to the function set of the condition being evaluated
    r4_branch_cache(repo, rep)
    from .c17 import r3_necessary_variables  # conditions share base domains: building `plate - hole(t)` for one condition must not write the hole's variables into `plate`
    r3_necessary_variables(repo, rep)
    from .c04 import r11_preevaluated_data_shape  # repeatable: a static sampler's pre-evaluated data must give the loss the same points give when drawn afresh
    r11_preevaluated_data_shape(repo, rep)
    from .c16 import r2_shuffle_coupling  # data sets shuffle copies: the user's tensors (shared with other conditions / loaders) keep their order
    r2_shuffle_coupling(repo, rep)


_C = "src/torchphysics/problem/conditions/condition.py"
_U = "src/torchphysics/utils/user_fun.py"
_S = "src/torchphysics/solver.py"
MUTANTS = [
    dict(id="C14-M1", file=_C, old="        data_functions = dict(data_functions)\n", new="", rule="R-C14-1", what="write into the caller's dict re-introduced"),
    dict(id="C14-M2", file=_C, old="        if isinstance(sampler, StaticSampler):\n            # functions can be evaluated once", new="        if isinstance(sampler, (StaticSampler, GridSampler)):\n            # functions can be evaluated once", rule="R-C14-1b", what="pre-evaluation for a non-static sampler"),
    dict(id="C14-M3", file=_C, old="        self.right_data_functions = self._setup_data_functions(\n            data_functions, tmp_right_sampler\n        )", new="        self.right_data_functions = self.left_data_functions", rule="R-C14-3", what="same container for left and right"),
    dict(id="C14-M4", file=_C, old="        x_coordinates, x = x.track_coord_gradients()\n\n        data = {}\n        for fun in self.data_functions:\n            data[fun] = self.data_functions[fun](x_coordinates)\n\n        y = self.module(x)\n\n        unreduced_loss = self.error_fn(\n            self.residual_fn(\n                {**y.coordinates, **x_coordinates, **self.parameter.coordinates, **data}",
         new="        x_coordinates, x = x.track_coord_gradients()\n        self.last_points = x\n\n        data = {}\n        for fun in self.data_functions:\n            data[fun] = self.data_functions[fun](x_coordinates)\n\n        y = self.module(x)\n\n        unreduced_loss = self.error_fn(\n            self.residual_fn(\n                {**y.coordinates, **x_coordinates, **self.parameter.coordinates, **data}", rule="R-C14-4", what="forward caches points on self"),
    dict(id="C14-M5", file=_C, old="        if not sampler.is_static:\n            raise ValueError(\n                \"Adaptive point weights should only be used with static\", \"samplers.\"\n            )", new="        sampler = sampler.make_static()", rule="R-C14-4", what="constructor re-staticises the user's sampler"),
    dict(id="C14-M6", file=_U, old="        inp = {key: args[key] for key in self.args if key in args}\n        inp.update({key: self.defaults[key] for key in self.args if key not in args})\n        if not vectorize:",
         new="        for key in self.args:\n            if key not in args:\n                args.setdefault(key, self.defaults[key])\n        inp = {key: args[key] for key in self.args}\n        if not vectorize:", rule=None, rules=["R-C13-5", "R-C14-2"], what="defaults written into the caller's mapping"),
    dict(id="C14-M8", file=_C, old="                {**x_left_coordinates, **x_b_coordinates}\n", new="                {**x_right_coordinates, **x_b_coordinates}\n", rule="R-C14-3", what="left data evaluated on the right points"),
    dict(id="C14-M7", file=_S, old="        self.optimizer_args = optimizer_args", new="        self.optimizer_args = optimizer_args\n        optimizer_args.setdefault(\"lr\", lr)", rule="R-C14-2", what="mutable default written (thorough tier scope)"),
]
TWINS = [
    dict(id="C14-T1", file=_C, old="        data_functions = dict(data_functions)\n        for fun in data_functions:\n            data_functions[fun] = UserFunction(data_functions[fun])", new="        data_functions = {fun: UserFunction(data_functions[fun]) for fun in data_functions}", what="comprehension building the new dict"),
]

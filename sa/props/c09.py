"""C09 — DeepONet output is the branch-trunk inner product; the fast trunk path is equivalent.

Decided: contraction over the neuron axis only, branch/trunk agree on the
(output_dim, neurons) split, autograd hygiene of the custom linear Function,
branch-cache protocol, meshgrid pairing of function-set parameters with points.
Not decided: numerical equivalence of values and derivatives."""
from __future__ import annotations

import ast
from typing import List

from ..flow import RAISE, attr_chain, def_id, dump, kwarg, paths
from ..repo import AnalysisError, Repo
from ..util import ends

EXPLANATION = (
    "Structural decision of the DeepONet mechanisms on expanded path expressions: the output is the sum over the LAST axis of "
    "trunk features times branch features broadcast over the location axis (no re-arranging operation between features and "
    "output); trunk and branch reshape their features with the same (output_dim, neurons/output_dim) tail; the custom autograd "
    "Function saves only its own inputs (or index views of them), is not once_differentiable, never detaches, returns one "
    "gradient per input guarded by needs_input_grad, each built from the mathematically required operands; the branch cache is "
    "written by branch forwards only and recomputed exactly when the iteration number changes; all four ways to fix the branch "
    "input end in the same branch call on Points of the function space's output space; the parameter/point meshgrid pairs "
    "columns with the space product in the same order."
)
ASSUMPTIONS = [
    "torch broadcasting / autograd.Function semantics (trusted)",
    "numerical equivalence of the fast path with a plain nn.Linear is not decided, only the hygiene conditions that are necessary for it",
]
DO = "models.deeponet"
REARRANGE = ("reshape", "view", "permute", "transpose", "flatten", "movedim", "swapaxes", "T", "mT", "matmul", "bmm", "einsum", "tensordot")


def r1_contraction(repo: Repo, rep):
    R = rep.rule("R-C09-1", "DeepONet.forward returns Points(sum(trunk_out * branch_out.unsqueeze(1), dim=-1), output_space): contraction over the neuron axis only",
                 floor=2, why="summing another axis or re-arranging the product mixes output components / locations")
    ci = repo.cls(f"{DO}.deeponet.DeepONet")
    fi = ci.methods.get("forward")
    if fi is None:
        raise AnalysisError("DeepONet.forward vanished")
    rep.saw(fi)
    for p in paths(fi.node):
        if p.ret is RAISE or p.ret is None:
            continue
        r = p.ret
        if not (isinstance(r, ast.Call) and attr_chain(r.func) == "Points" and len(r.args) >= 2):
            rep.undecided(R, fi.site(p.ret_node), fi.fq, "returns Points(out, output_space)", dump(r)[:80])
            continue
        rep.check(R, dump(r.args[1]) == "self.output_space", fi.site(p.ret_node), fi.fq, "labelled with self.output_space", dump(r.args[1]), dump(r.args[1]))
        out = r.args[0]
        # the output is the inner product of trunk and branch features and nothing else: no further learnable / stored tensor takes part
        inside_trunk = {id(x) for c in ast.walk(out) if isinstance(c, ast.Call) and dump(c.func) == "self.trunk" for a in c.args for x in ast.walk(a)}
        extra = sorted({dump(a) for a in ast.walk(out) if isinstance(a, ast.Attribute) and id(a) not in inside_trunk and isinstance(a.value, ast.Name) and a.value.id == "self"
                        and a.attr not in ("trunk", "branch", "output_space")})
        rep.check(R, not extra, fi.site(p.ret_node), fi.fq, "only trunk features, branch features and shapes enter the output", f"further terms: {extra}", f"extra terms {extra}")
        from ..absdom.axes import AxesEval, NotAxes, Scrambled
        four = [pol for g, pol, k in p.guards if "shape" in dump(g) and "< 4" in dump(g)]
        trunk_axes = [("N",), ("D",), ("K",)] if (four and four[0]) else [("F",), ("N",), ("D",), ("K",)]

        def atom(n, trunk_axes=trunk_axes):
            if isinstance(n, ast.Call) and dump(n.func) == "self.trunk":
                return trunk_axes
            if isinstance(n, ast.Attribute) and dump(n) == "self.branch.current_out":
                return [("F",), ("D",), ("K",)]
            return None

        def size_role(n, ev):
            t = dump(n).replace(" ", "")
            if t == "self.output_space.dim":
                return "D"
            return None
        try:
            axes = AxesEval(atom, size_role).ev(out)
            want = [("F",), ("N",), ("D",)]
            rep.check(R, axes == want, fi.site(p.ret_node), fi.fq, "output axes = (function, location, component): the neuron axis K is contracted, nothing else",
                      f"axes {axes} from trunk {trunk_axes} x branch (F, D, K)", f"axes {axes}")
        except Scrambled as err:
            rep.violation(R, fi.site(p.ret_node), fi.fq, "output axes = (function, location, component)", str(err), str(err)[:200])
        except NotAxes as err:
            rep.undecided(R, fi.site(p.ret_node), fi.fq, "contraction decidable by the axis-role interpreter", str(err))


def r2_reshape_agreement(repo: Repo, rep):
    R = rep.rule("R-C09-2", "TrunkNet and BranchNet reshape their features to the same tail (output_space.dim, output_neurons // output_space.dim)", floor=3,
                 why="if the siblings split the neuron axis differently the product pairs features of different output components")
    tails = {}
    for mod, cname in (("trunknets", "TrunkNet"), ("branchnets", "BranchNet")):
        ci = repo.cls(f"{DO}.{mod}.{cname}")
        fi = ci.methods.get("_reshape_multidimensional_output")
        if fi is None:
            raise AnalysisError(f"{cname}._reshape_multidimensional_output vanished")
        rep.saw(fi)
        for p in paths(fi.node):
            if p.ret is RAISE or p.ret is None:
                continue
            r = p.ret
            if isinstance(r, ast.Call) and isinstance(r.func, ast.Attribute) and r.func.attr in ("transpose", "permute", "swapaxes", "movedim") \
                    and isinstance(r.func.value, ast.Call) and isinstance(r.func.value.func, ast.Attribute) and r.func.value.func.attr in ("reshape", "view"):
                # the neuron axis is split the other way round and the two new axes swapped afterwards: neuron k lands in component k % dim instead of k // (neurons/dim)
                rep.violation(R, fi.site(p.ret_node), fi.fq, "the neuron axis is split component-major (dim, neurons/dim) by a plain reshape, as in the sibling net",
                              dump(r)[:110], "split neuron-major and transposed")
                continue
            if not (isinstance(r, ast.Call) and isinstance(r.func, ast.Attribute) and r.func.attr in ("reshape", "view") and len(r.args) >= 2):
                rep.undecided(R, fi.site(p.ret_node), fi.fq, "output.reshape(..., dim, neurons/dim)", dump(r)[:80])
                continue
            tail = tuple(dump(a).replace(" ", "") for a in r.args[-2:])
            lead = tuple(dump(a).replace(" ", "") for a in r.args[:-2])
            tails.setdefault(cname, set()).add(tail)
            want = ("self.output_space.dim", "int(self.output_neurons/self.output_space.dim)")
            want2 = ("self.output_space.dim", "self.output_neurons//self.output_space.dim")
            rep.check(R, tail in (want, want2), fi.site(p.ret_node), fi.fq, "tail = (output_space.dim, output_neurons / output_space.dim)", str(tail), str(tail))
            base = dump(r.func.value)
            okl = lead in (("-1",), (f"{base}.shape[0]", f"{base}.shape[1]"))
            rep.check(R, okl, fi.site(p.ret_node), fi.fq, "leading axes are the batch axes of the features", str(lead), str(lead))
    if len(tails) == 2:
        a, b = tails["TrunkNet"], tails["BranchNet"]
        rep.check(R, a == b or (len(b) == 1 and b <= a), "src/torchphysics/models/deeponet", "TrunkNet/BranchNet", "sibling reshape tails agree", f"trunk {sorted(a)} vs branch {sorted(b)}", f"{sorted(a)}|{sorted(b)}")
    # every concrete net routes its features through the reshape
    model = repo.cls("models.model.Model")
    for ci in repo.subclasses(model, strict=True):
        if ci.module.name.split(".")[-1] not in ("trunknets", "branchnets") or "forward" not in ci.methods or ci.name in ("TrunkNet", "BranchNet"):
            continue
        fw = ci.methods["forward"]
        rep.saw(fw)
        calls = [c for c in ast.walk(fw.node) if isinstance(c, ast.Call) and dump(c.func) == "self._reshape_multidimensional_output"]
        rep.check(R, len(calls) == 1, fw.site(), fw.fq, "features pass through _reshape_multidimensional_output exactly once", f"{len(calls)} call(s)", f"{len(calls)} calls")


def r3_fast_path(repo: Repo, rep):
    R = rep.rule("R-C09-3", "custom `linear` Function: saves only its inputs (or index views), no detach / no_grad / once_differentiable, one gradient per input guarded by "
                 "needs_input_grad, gradients built from the required operands", floor=8,
                 why="a tensor created inside forward (no-grad mode) and saved for backward has no graph link to the parameter: second-order "
                     "parameter gradients of derivative losses are silently dropped")
    ci = repo.cls(f"{DO}.layers.linear")
    fw, bw = ci.methods.get("forward"), ci.methods.get("backward")
    if fw is None or bw is None:
        raise AnalysisError("layers.linear.forward/backward vanished")
    rep.saw(fw), rep.saw(bw)
    rep.check(R, not any("once_differentiable" in d for d in bw.decorators), bw.site(), bw.fq, "backward is differentiable (no @once_differentiable)", str(bw.decorators), str(bw.decorators))
    for f in (fw, bw):
        bad = sorted({n.attr for n in ast.walk(f.node) if isinstance(n, ast.Attribute) and n.attr in ("detach", "detach_", "data", "no_grad", "item", "numpy")})
        rep.check(R, not bad, f.site(), f.fq, "no detach / .data / no_grad in the Function", str(bad), str(bad))
    inputs = fw.params[1:]
    saved = []
    for p in paths(fw.node):
        if p.ret is RAISE:
            continue
        sv = [e.value for e in p.events if e.kind == "call" and isinstance(e.value, ast.Call) and dump(e.value.func) == "ctx.save_for_backward"]
        if len(sv) != 1:
            rep.violation(R, fw.site(), fw.fq, "exactly one save_for_backward per path", f"{len(sv)}", f"{len(sv)} saves")
            continue
        args = sv[0].args
        saved = args
        bad = []
        for a in args:
            x = a
            # index views of an input are fine: input[0], input.unsqueeze(0)[0]
            while True:
                if isinstance(x, ast.Subscript):
                    x = x.value
                elif isinstance(x, ast.Call) and isinstance(x.func, ast.Attribute) and x.func.attr in ("unsqueeze",):
                    x = x.func.value
                elif isinstance(x, ast.IfExp):
                    x = x.body
                else:
                    break
            if not (isinstance(x, ast.Name) and x.id in inputs):
                bad.append(dump(a)[:60])
        rep.check(R, not bad, fw.site(), fw.fq, "saved tensors are the Function's own inputs (or index views of them)", f"derived tensors saved: {bad}", str(bad))
        rep.check(R, len(args) == len(inputs), fw.site(), fw.fq, f"all {len(inputs)} inputs saved for backward", f"{len(args)} saved", f"{len(args)} saved")
    gname = bw.params[1]
    picked = sorted({dump(n)[:40] for n in ast.walk(bw.node) if isinstance(n, ast.Subscript) and isinstance(n.value, ast.Name) and n.value.id == gname
                     and not isinstance(n.slice, (ast.Slice, ast.Tuple)) and not (isinstance(n.slice, ast.Constant) and n.slice.value is Ellipsis)})
    rep.check(R, not picked, bw.site(), bw.fq, "the upstream gradient of every copy along the first axis contributes (it is not identical along that axis)",
              f"a single copy is selected: {picked}", f"copy selected: {picked}")
    for p in paths(bw.node):
        if p.ret is RAISE or p.ret is None:
            continue
        r = p.ret
        if not (isinstance(r, ast.Tuple) and len(r.elts) == len(inputs)):
            rep.violation(R, bw.site(p.ret_node), bw.fq, f"one gradient per forward input ({len(inputs)})", dump(r)[:80], dump(r)[:80])
            continue
        g = bw.params[1]
        need = {0: ({g, "weight"}, {"input"}), 1: ({g, "input"}, {"weight"}), 2: ({g}, {"weight", "input"})}
        for k, el in enumerate(r.elts):
            import re as _re
            gpat = _re.compile(r"ctx\.needs_input_grad(\[:\d*\])?\[%d\]" % k)
            guard = [pol for gg, pol, kk in p.guards if gpat.search(dump(gg).replace(" ", ""))]
            if not guard and isinstance(el, ast.IfExp) and gpat.search(dump(el.test).replace(" ", "")) and dump(el.orelse) == "None":
                # conditional expression form: `<gradient> if ctx.needs_input_grad[k] else None`
                guard, el = [True], el.body
            if not guard:
                # not computed at all on this path (e.g. no bias): nothing to guard
                rep.check(R, dump(el) == "None", bw.site(p.ret_node), bw.fq, f"gradient {k} guarded by ctx.needs_input_grad[{k}]", f"no such guard, gradient is {dump(el)[:50]}", f"grad {k} unguarded")
                continue
            if not guard[0]:
                rep.check(R, dump(el) == "None", bw.site(p.ret_node), bw.fq, f"gradient {k} is None when not needed", dump(el)[:60], dump(el)[:60])
                continue
            absent = any(pol and isinstance(gg, ast.Compare) and isinstance(gg.ops[0], ast.Is) and dump(gg.comparators[0]) == "None" and "saved_tensors" in dump(gg.left) or
                         (pol and dump(gg) == f"{inputs[k]} is None") for gg, pol, kk in p.guards)
            if dump(el) == "None" and absent:
                rep.ok(R, bw.site(p.ret_node), bw.fq, f"gradient {k}: the input is absent on this path", "None")
                continue
            names = set()
            for n in ast.walk(el):
                if isinstance(n, ast.Name):
                    names.add(n.id)
                if isinstance(n, ast.Subscript) and getattr(n, "_tuple_elt", False) and dump(n.value) == "ctx.saved_tensors":
                    names.add(inputs[n.slice.value] if n.slice.value < len(inputs) else "?")
            must, mustnot = need[k]
            ok = must <= names and not (mustnot & names)
            rep.check(R, ok, bw.site(p.ret_node), bw.fq, f"gradient w.r.t. `{inputs[k]}` is built from {sorted(must)}", f"uses {sorted(names - {'ctx'})}", f"grad{k}: {sorted(names - {'ctx'})}")
    # the copy axis exists only for inputs of rank >= 3: a rank-2 input (locations x features) gets a leading axis before its first entry is taken
    R7 = rep.rule("R-C09-7", "linear.forward takes the first copy (input[0] / input[:1]) only from a tensor that has a copy axis: under `len(input.shape) < 3` "
                  "the input is given a leading axis first", floor=1,
                  why="for a rank-2 trunk input the first axis are the locations: every location would get the features of location 0")
    inp = inputs[0]
    for p in paths(fw.node):
        if p.ret is RAISE:
            continue
        low = [pol for g, pol, k in p.guards if k == "if" and dump(g).replace(" ", "") in (f"len({inp}.shape)<3", f"len({inp}.shape)<=2", f"len({inp}.shape)==2")]
        high = [not pol for g, pol, k in p.guards if k == "if" and dump(g).replace(" ", "") in (f"len({inp}.shape)>=3", f"len({inp}.shape)>2")]
        low_rank = (low and low[0]) or (high and high[0])
        decided = bool(low or high)
        firsts = []
        for e in p.events:
            if e.value is None:
                continue
            for n in ast.walk(e.value):
                if isinstance(n, ast.Subscript) and (dump(n.slice) in ("0", ":1", "slice(None, 1, None)") or (isinstance(n.slice, ast.Slice) and n.slice.lower is None and dump(n.slice.upper) == "1")):
                    firsts.append(n.value)
        if p.ret is not None:
            for n in ast.walk(p.ret):
                if isinstance(n, ast.Subscript) and (dump(n.slice) == "0" or (isinstance(n.slice, ast.Slice) and n.slice.lower is None and n.slice.upper is not None and dump(n.slice.upper) == "1")):
                    firsts.append(n.value)
        bases = sorted({dump(b) for b in firsts if inp in {x.id for x in ast.walk(b) if isinstance(x, ast.Name)}})
        if not bases:
            continue
        raw = [b for b in bases if b == inp]
        if raw and (not decided or low_rank):
            rep.violation(R7, fw.site(), fw.fq, "a rank-2 input receives a leading axis before its first copy is taken", f"first copy of the raw `{inp}` taken " + ("without a rank test" if not decided else "although the rank is below 3"), "first copy of a rank-2 input")
        else:
            rep.ok(R7, fw.site(), fw.fq, "first copy taken from a tensor with a copy axis", f"bases {bases}; rank test {'<3' if low_rank else '>=3'}")
    tl = repo.cls(f"{DO}.layers.TrunkLinear")
    f = tl.methods.get("forward")
    rep.saw(f)
    for p in paths(f.node):
        if p.ret is not RAISE:
            rep.check(R, dump(p.ret) == f"linear.apply({f.params[1]}, self.weight, self.bias)", f.site(), f.fq, "TrunkLinear applies the Function to (input, weight, bias)", dump(p.ret), dump(p.ret))


def r10_network_calls_keep_their_graph(repo: Repo, rep):
    R = rep.rule("R-C09-10", "no method of the DeepONet parts evaluates a network (self(..), self.forward, a sub-network of self) with gradient recording switched off "
                 "(torch.no_grad / inference_mode / set_grad_enabled(False), as a block or a decorator)", floor=15,
                 why="a branch output fixed under no_grad is a constant: the branch parameters receive no gradient when the fixed input is trained on - the parameter gradients differ from the plain network's")

    def off(e):
        if isinstance(e, ast.Call):
            ch = attr_chain(e.func) or ""
            if ch.endswith(("no_grad", "inference_mode")):
                return not (e.args and isinstance(e.args[0], ast.Constant) and e.args[0].value is False)
            if ch.endswith(("set_grad_enabled", "enable_grad")) and e.args:
                return ch.endswith("set_grad_enabled") and isinstance(e.args[0], ast.Constant) and e.args[0].value is False
        return isinstance(e, ast.Attribute) and e.attr in ("no_grad", "inference_mode")

    def net_calls(node):
        out = []
        for c in ast.walk(node):
            if isinstance(c, ast.Call):
                t = dump(c.func)
                if t == "self" or t.startswith("self.") and not t.startswith(("self._", "self.register", "self.to", "self.parameters")) and (t.endswith(".forward") or t.count(".") == 1):
                    out.append(c)
        return out
    for fi in repo.all_functions():
        if ".models.deeponet." not in fi.module.name and not fi.module.name.endswith(".models.deeponet"):
            continue
        if fi.cls is None:
            continue
        rep.saw(fi)
        bad = []
        if any(off(d) for d in fi.node.decorator_list) and net_calls(fi.node):
            bad.append("decorated")
        for n in ast.walk(fi.node):
            if isinstance(n, ast.With) and any(off(i.context_expr) for i in n.items):
                bad += [dump(c)[:40] for b in n.body for c in net_calls(b)]
        rep.check(R, not bad, fi.site(), fi.fq, "networks are evaluated with gradient recording on", f"without recording: {bad[:3]}", f"{bad[:3]}")


def r11_branch_input_layout(repo: Repo, rep):
    R = rep.rule("R-C09-11", "branch input layout: a branch has one input neuron per sensor and per component of the function VALUES (len(sampler) * function_space.output_space.dim); the "
                 "convolutional branch hands (functions, components, sensors) to its conv net by TRANSPOSING (functions, sensors, components); fix_input never guesses a layout from sizes", floor=3,
                 why="reshape(n, C, L) of an (n, L, C) batch interleaves sensors and components; the domain dimension instead of the value dimension merges or splits input functions; "
                     "a transposition taken when shape[0] happens to equal the value dimension makes the callable path disagree with the tensor / Points / function-set paths")
    from ..absdom.axes import AxesEval, NotAxes, Scrambled
    from ..absdom.poly import RF, NotPoly, to_rf
    from ..util import deref, single_defs
    bn = repo.cls(f"{DO}.branchnets.BranchNet")
    init = bn.methods.get("__init__")
    if init is None:
        raise AnalysisError("BranchNet.__init__ vanished")
    rep.saw(init)
    tmp = single_defs(init.node)
    for a in ast.walk(init.node):
        if isinstance(a, ast.Assign) and any(dump(t) == "self.input_dim" for t in a.targets):
            def atom(n):
                t = dump(n)
                if t in ("len(self.discretization_sampler)", "len(discretization_sampler)"):
                    return RF.atom("N")
                if isinstance(n, ast.Attribute) and t.endswith("function_space.output_space.dim"):
                    return RF.atom("VALUES")
                if isinstance(n, ast.Attribute) and t.endswith("function_space.input_space.dim"):
                    return RF.atom("DOMAIN")
                return None
            try:
                got = to_rf(deref(a.value, tmp), atom)
                rep.check(R, got == RF.atom("N") * RF.atom("VALUES"), init.site(a), init.fq, "input_dim = number of sensors * dimension of the function values", repr(got), repr(got))
            except NotPoly as err:
                rep.undecided(R, init.site(a), init.fq, "input_dim evaluable", str(err)[:80])
    # the convolutional branch
    for ci in repo.subclasses(bn, strict=True):
        fw = ci.methods.get("forward")
        if fw is None or not any(isinstance(c, ast.Call) and dump(c.func) == "self.conv_net" for c in ast.walk(fw.node)):
            continue
        rep.saw(fw)
        pname = fw.params[1]
        shapes = {}  # local size names unpacked from <batch>.shape
        for a in ast.walk(fw.node):
            if isinstance(a, ast.Assign) and isinstance(a.targets[0], (ast.Tuple, ast.List)) and isinstance(a.value, ast.Attribute) and a.value.attr == "shape":
                for k, t in enumerate(a.targets[0].elts):
                    if isinstance(t, ast.Name) and k < 3:
                        shapes[t.id] = ("F", "L", "C")[k]

        holder = {}

        def atom_ax(n, pname=pname, fw=fw, holder=holder):
            if isinstance(n, ast.Name) and n.id == pname:
                return [("F",), ("L",), ("C",)]
            if isinstance(n, ast.Name):
                # a temporary bound once (the batch name itself may be re-bound to its raw tensor: same axes)
                defs = [a.value for a in ast.walk(fw.node) if isinstance(a, ast.Assign) and len(a.targets) == 1 and isinstance(a.targets[0], ast.Name) and a.targets[0].id == n.id]
                if len(defs) == 1 and "ev" in holder:
                    return holder["ev"].ev(defs[0])
            return None

        def size_role(n, e, shapes=shapes):
            if isinstance(n, ast.Name):
                return shapes.get(n.id)
            return None
        body = deref(fw.node, {k: v for k, v in single_defs(fw.node).items() if k != pname})
        for c in ast.walk(body):
            if isinstance(c, ast.Call) and dump(c.func) == "self.conv_net" and c.args:
                arg = c.args[0]
                # the batch name is re-bound to its raw tensor first: same axes
                try:
                    holder["ev"] = AxesEval(atom_ax, size_role)
                    axes = holder["ev"].ev(arg)
                    rep.check(R, axes == [("F",), ("C",), ("L",)], fw.site(c), fw.fq, "the conv net receives (functions, components, sensors): axes 1 and 2 of the batch exchanged", f"axes {axes}", f"conv input axes {axes}")
                except Scrambled as err:
                    rep.violation(R, fw.site(c), fw.fq, "the conv net receives (functions, components, sensors): axes 1 and 2 of the batch exchanged", str(err)[:200], "conv input scrambled")
                except NotAxes as err:
                    rep.undecided(R, fw.site(c), fw.fq, "conv input layout evaluable", str(err)[:100])
    # fix_input: no layout decided from a coincidence of sizes
    for ci in [bn] + repo.subclasses(bn, strict=True):
        fx = ci.methods.get("fix_input")
        if fx is None:
            continue
        rep.saw(fx)
        bad = []
        for n in ast.walk(fx.node):
            if isinstance(n, (ast.If, ast.IfExp)) and any(isinstance(x, ast.Attribute) and x.attr == "shape" for x in ast.walk(n.test)):
                blk = n.body if isinstance(n, ast.If) else [n.body]
                moves = [dump(x)[:40] for b in blk for x in ast.walk(b)
                         if (isinstance(x, ast.Attribute) and x.attr in ("T", "mT")) or (isinstance(x, ast.Call) and isinstance(x.func, ast.Attribute) and x.func.attr in ("transpose", "permute", "t", "swapaxes", "movedim"))]
                if moves:
                    bad.append(f"if {dump(n.test)[:50]}: {moves[0]}")
        rep.check(R, not bad, fx.site(), fx.fq, "the discretised input is used in the layout it was given in", str(bad[:1]), str(bad[:1]))


def r4_branch_cache(repo: Repo, rep):
    R = rep.rule("R-C09-4", "branch cache protocol: current_out is written by branch forwards only; every way of fixing the branch input ends in the branch call on Points of "
                 "input_space.output_space; function sets sample their parameters before being discretised; _forward_branch recomputes iff the iteration number changed",
                 floor=9, why="a stale or foreign branch output silently pairs locations with the wrong input functions")
    # writers of current_out
    writers = []
    for fi in repo.all_functions():
        for n in ast.walk(fi.node):
            if isinstance(n, (ast.Assign, ast.AugAssign)):
                for t in (n.targets if isinstance(n, ast.Assign) else [n.target]):
                    if isinstance(t, ast.Attribute) and t.attr == "current_out":
                        writers.append(fi)
    branch = repo.cls(f"{DO}.branchnets.BranchNet")
    bad = [w.fq for w in writers if not (w.cls is not None and repo.is_subclass(w.cls, branch) and w.name in ("forward", "__init__"))]
    rep.check(R, not bad and len(writers) >= 3, branch.module.relpath, branch.fq, "current_out is written only in BranchNet.__init__ and the branch forwards", f"writers {sorted({w.fq.split('.')[-2] + '.' + w.name for w in writers})}; foreign {bad}", str(bad))
    for ci in repo.subclasses(branch, strict=True):
        fw = ci.methods.get("forward")
        if fw is None:
            continue
        rep.saw(fw)
        for p in paths(fw.node, expand_self=False):
            if p.ret is RAISE:
                continue
            v = p.attrs.get("self.current_out")
            ok = v is not None and dump(v).startswith("self._reshape_multidimensional_output(") and fw.params[1] in dump(v)
            rep.check(R, ok, fw.site(), fw.fq, "forward stores the reshaped features of ITS input in current_out", dump(v)[:100], dump(v)[:100])
    fx = branch.methods.get("fix_input")
    if fx is None:
        raise AnalysisError("BranchNet.fix_input vanished")
    rep.saw(fx)
    n = 0
    for p in paths(fx.node):
        if p.ret is RAISE:
            continue
        n += 1
        calls = [e.value for e in p.events if e.kind == "call" and isinstance(e.value, ast.Call) and dump(e.value.func) == "self"]
        if len(calls) != 1:
            rep.violation(R, fx.site(), fx.fq, "every variant ends in exactly one branch call self(discrete_fn)", f"{len(calls)} calls", f"{len(calls)} branch calls")
            continue
        arg = calls[0].args[0]
        t = dump(arg)
        kind = [dump(g) for g, pol, k in p.guards if pol][-1] if p.guards else ""
        if "FunctionSet" in kind:
            ok = t.startswith("self._discretize_function_set(")
            sampled = [e for e in p.events if e.kind == "call" and isinstance(e.value, ast.Call) and dump(e.value.func) == f"{fx.params[1]}.sample_params"]
            disc_line = min((e.node.lineno for e in p.events if e.value is not None and "_discretize_function_set" in dump(e.value)), default=0)
            ok = ok and len(sampled) == 1 and sampled[0].node.lineno < disc_line
            rep.check(R, ok, fx.site(), fx.fq, "function set: sample_params() then discretise, then branch call", t[:80], t[:80])
        else:
            ok = (isinstance(arg, ast.Call) and attr_chain(arg.func) == "Points" and len(arg.args) == 2 and dump(arg.args[1]) == "self.input_space.output_space") or t == fx.params[1]
            rep.check(R, ok, fx.site(), fx.fq, "tensor / callable / Points variants: Points(values, self.input_space.output_space) handed to the branch", t[:100], t[:100])
    rep.check(R, n >= 6, fx.site(), fx.fq, "all input kinds handled (function set, callable, Points 2-D/3-D, tensor 2-D/3-D)", f"{n} paths", f"{n} paths")
    don = repo.cls(f"{DO}.deeponet.DeepONet")
    fb = don.methods.get("_forward_branch")
    if fb is None:
        raise AnalysisError("DeepONet._forward_branch vanished")
    rep.saw(fb)
    fs, it = fb.params[1], fb.params[2]
    for p in paths(fb.node):
        if p.ret is RAISE:
            continue
        changed = [pol for g, pol, k in p.guards if dump(g).replace(" ", "") in (f"{it}!={fs}.current_iteration_num", f"{fs}.current_iteration_num!={it}")]
        changed += [not pol for g, pol, k in p.guards if dump(g).replace(" ", "") in (f"{it}=={fs}.current_iteration_num", f"{fs}.current_iteration_num=={it}")]
        calls = [dump(e.value.func) for e in p.events if e.kind == "call" and isinstance(e.value, ast.Call)]
        S = changed[0] if changed else None  # did the function set's own iteration flag change on this path?
        own = [(g, pol) for g, pol, k in p.guards if k == "if" and any(isinstance(x, ast.Attribute) and attr_chain(x) and attr_chain(x).startswith("self.") for x in ast.walk(g))]
        reuse = "self.branch" not in calls
        sampled = f"{fs}.sample_params" in calls
        if S is True:
            upd = p.env.get(f"{fs}.current_iteration_num")
            ok = upd is not None and dump(upd) == it and calls[:1] == [f"{fs}.sample_params"] and not reuse
            rep.check(R, ok, fb.site(), fb.fq, "new iteration: remember it, sample new functions, discretise, evaluate the branch", f"calls {calls}, iteration := {dump(upd)}", str(calls))
            continue
        if sampled:
            rep.violation(R, fb.site(), fb.fq, "new functions are drawn exactly when the function set's remembered iteration differs", f"sample_params under {[(dump(g)[:50], pol) for g, pol, k in p.guards if k == 'if']}", "resampled without the function set's iteration test")
            continue
        if reuse:
            if S is not False:
                rep.violation(R, fb.site(p.ret_node) if p.ret_node is not None else fb.site(), fb.fq, "the cached branch output is reused only when the function set's iteration number equals the remembered one",
                              f"returns without evaluating the branch under {[(dump(g)[:50], pol) for g, pol, k in p.guards if k == 'if']}", "reuse without the iteration test")
                continue
            # ownership: the output that is reused lives on this model's branch net; that it belongs to the function set's current sample must be
            # recorded on the model too, or a second model using the same function set in that iteration reuses an output it never computed
            rep.check(R, bool(own), fb.site(), fb.fq, "reuse of the cached branch output is also guarded by state of the model that holds it",
                      f"only `{fs}.current_iteration_num` is consulted (shared by every model that uses the function set); the output lives on `self.branch`",
                      "cache flag and cached value on different objects")
        else:
            rep.ok(R, fb.site(), fb.fq, "the branch is evaluated on the function set's current sample", str(calls))


def r4b_fix_always(repo: Repo, rep):
    R = "R-C09-4"
    dn = repo.cls(f"{DO}.deeponet.DeepONet")
    fi = dn.methods.get("fix_branch_input")
    if fi is None:
        raise AnalysisError("DeepONet.fix_branch_input vanished")
    rep.saw(fi)
    for p in paths(fi.node):
        if p.ret is RAISE:
            continue
        calls = [e.value for e in p.events if e.kind == "call" and isinstance(e.value, ast.Call) and dump(e.value.func) == "self.branch.fix_input"]
        skip = [dump(g)[:60] + ("" if pol else " is false") for g, pol, k in p.guards if k == "if"]
        rep.check(R, len(calls) == 1 and calls[0].args and dump(calls[0].args[0]) == fi.params[1], fi.site(), fi.fq,
                  "fixing a branch input always evaluates the branch on it (weights or the tensor's content may have changed since the last time)",
                  f"{len(calls)} call(s) of self.branch.fix_input" + (f" when {skip}" if skip else ""), f"{len(calls)} fix_input calls")


def r5_meshgrid(repo: Repo, rep):
    R = rep.rule("R-C09-5", "FunctionSet._create_meshgrid pairs parameter row i with every point: columns cat((params, points), dim=-1) in the order of "
                 "param space * point space, parameters repeated along the point axis and points along the parameter axis", floor=2,
                 why="another replication layout evaluates function i at parameters of function j, so a FunctionSet gives another branch input than the same function as a callable")
    fs = repo.cls("problem.domains.functionsets.functionset.FunctionSet")
    fi = fs.methods.get("_create_meshgrid")
    if fi is None:
        raise AnalysisError("FunctionSet._create_meshgrid vanished")
    rep.saw(fi)
    pts = fi.params[1]
    for p in paths(fi.node):
        if p.ret is RAISE or p.ret is None:
            continue
        r = p.ret
        if not (isinstance(r, ast.Call) and attr_chain(r.func) == "Points" and len(r.args) == 2):
            rep.undecided(R, fi.site(p.ret_node), fi.fq, "returns Points(cat(...), space)", dump(r)[:80])
            continue
        cat, sp = r.args
        ok = isinstance(cat, ast.Call) and attr_chain(cat.func) == "torch.cat" and isinstance(cat.args[0], (ast.Tuple, ast.List)) and len(cat.args[0].elts) == 2 and dump(kwarg(cat, "dim", 1)) == "-1"
        if not ok:
            rep.undecided(R, fi.site(p.ret_node), fi.fq, "cat((params, points), dim=-1)", dump(cat)[:100])
            continue
        from ..absdom.axes import AxesEval, NotAxes, Scrambled

        def atom(n, pts=pts):
            t = dump(n)
            if t in (f"{pts}.as_tensor", f"{pts}._t"):
                return [("N",), ("C",)]
            if t in ("self.param_batch.as_tensor", "self.param_batch._t"):
                return [("F",), ("P",)]
            return None

        def size_role(n, ev, pts=pts):
            t = dump(n).replace(" ", "")
            if t in (f"len({pts})", f"{pts}.as_tensor.shape[0]"):
                return "N"
            if t in ("len(self.param_batch)", "self.param_batch.as_tensor.shape[0]"):
                return "F"
            return None
        try:
            ae = AxesEval(atom, size_role)
            pa, po = ae.ev(cat.args[0].elts[0]), ae.ev(cat.args[0].elts[1])
            rep.check(R, pa == [("F",), ("N",), ("P",)] and po == [("F",), ("N",), ("C",)], fi.site(p.ret_node), fi.fq,
                      "parameter block has axes (function, point, param columns), point block (function, point, coordinates)", f"params {pa}, points {po}", f"{pa}|{po}")
        except Scrambled as err:
            rep.violation(R, fi.site(p.ret_node), fi.fq, "parameter row i is paired with every point", str(err), str(err)[:200])
        except NotAxes as err:
            rep.undecided(R, fi.site(p.ret_node), fi.fq, "replication decidable by the axis-role interpreter", str(err))
        order_ok = dump(sp).replace(" ", "") == f"self.param_batch.space*{pts}.space"
        rep.check(R, order_ok, fi.site(p.ret_node), fi.fq, "space = param space * point space (same order as the concatenation)", dump(sp), dump(sp))


class _Layer:
    def __init__(self, kind, a, b):
        self.kind, self.a, self.b, self.gain = kind, a, b, None

    def key(self):
        from ..absdom.listeval import norm
        return ("lin", norm(self.a), norm(self.b), norm(self.gain) if self.gain is not None else None)


def _build_layers(fi, n_hidden: int, list_args: bool):
    """partial evaluation of a layer builder for `n_hidden` hidden layers: the returned layer list as comparable keys"""
    from ..absdom.listeval import Evaluator, NotEval, Opaque, UNKNOWN, norm
    from ..absdom.poly import RF
    hidden = [RF.atom(f"h{k}") for k in range(n_hidden)]
    acts = [f"act{k}" for k in range(n_hidden)] if list_args else "act"
    gains = [RF.atom(f"g{k}") for k in range(n_hidden)] if list_args else RF.atom("g")

    def resolve(e, ev, f):
        if isinstance(e, ast.Attribute) and e.attr == "weight":
            try:
                base = ev.ev(e.value, f)
            except NotEval:
                return None
            if isinstance(base, _Layer):
                return base
        return None

    def on_call(e, name, args, kws, ev, f):
        if name.split(".")[-1] in ("Linear", "TrunkLinear") and args is not None:
            io = list(args[:2]) + [kws[k] for k in ("in_features", "out_features")[len(args[:2]):] if k in kws]
            if len(io) == 2 and UNKNOWN not in io:
                return _Layer("lin", io[0], io[1])
        if name.endswith("xavier_normal_") and args and isinstance(args[0], _Layer):
            args[0].gain = kws.get("gain", args[1] if len(args) > 1 else 1)
            return args[0]
        if name == "isinstance" and args is None:
            return None
        return None
    env = {"hidden": hidden, "input_dim": RF.atom("din"), "output_dim": RF.atom("dout"), "activations": acts, "xavier_gains": gains}
    names = [a.arg for a in fi.node.args.args]
    env = {n: env[k] for n, k in zip(names, ("hidden", "input_dim", "output_dim", "activations", "xavier_gains"))}
    fr = Evaluator(resolve, on_call).run(fi.node.body, env)
    if not isinstance(fr.ret, list):
        return None
    out = []
    for x in fr.ret:
        out.append(x.key() if isinstance(x, _Layer) else ("act", repr(x)))
    return out


def r6_builder_siblings(repo: Repo, rep):
    R = rep.rule("R-C09-6", "the fast-path layer builder construct_FC_trunk_layers builds the architecture of _construct_FC_layers (same widths, activation and Xavier gain per "
                 "position), with TrunkLinear in place of nn.Linear; FCTrunkNet.forward feeds the whole trunk input through the layer stack", floor=7,
                 why="another activation / width / gain per layer, or evaluating only one copy and expanding it, is another network (values or input gradients differ from the plain net)")
    fast = repo.module("models.deeponet.trunknets").functions.get("construct_FC_trunk_layers")
    plain = repo.module("models.fcn").functions.get("_construct_FC_layers")
    if fast is None or plain is None:
        raise AnalysisError("layer builders vanished")
    rep.saw(fast), rep.saw(plain)
    for n in (1, 2, 3):
        for lists in (True, False):
            a, b = _build_layers(fast, n, lists), _build_layers(plain, n, lists)
            what = f"{n} hidden layer(s), {'per-layer lists' if lists else 'one activation / gain for all layers'}"
            if a is None or b is None:
                rep.undecided(R, fast.site(), fast.fq, f"both builders evaluable for {what}", f"fast {a is not None}, plain {b is not None}")
                continue
            diff = [f"position {i}: fast {x} vs plain {y}" for i, (x, y) in enumerate(zip(a, b)) if x != y]
            if len(a) != len(b):
                diff.append(f"{len(a)} vs {len(b)} layers")
            rep.check(R, not diff, fast.site(), fast.fq, f"same layer list as the plain builder for {what}", "; ".join(diff[:2]), "; ".join(diff[:2]))
    ci = repo.cls(f"{DO}.trunknets.FCTrunkNet")
    fw = ci.methods.get("forward")
    rep.saw(fw)
    pname = fw.params[1]
    for p in paths(fw.node):
        if p.ret is RAISE or p.ret is None:
            continue
        want = f"self._reshape_multidimensional_output(self.sequential(self._fix_points_order({pname}).as_tensor))"
        rep.check(R, dump(p.ret) == want, fw.site(p.ret_node), fw.fq, "output = reshape(sequential(<all ordered trunk inputs>))", dump(p.ret)[:140], dump(p.ret)[:140])


def r8_no_inplace_state(repo: Repo, rep):
    R = rep.rule("R-C09-8", "forward passes of the DeepONet parts neither change stored tensors in place (x.op_() on anything reached from self) nor flatten caller-supplied data with "
                 ".view (which raises for strided inputs where .reshape copies)", floor=6,
                 why="branch.current_out is reused by later forward calls: unsqueeze_ / mul_ on it makes the output depend on the call history; view() makes it depend on the memory layout of the input")
    from ..util import deref, single_defs
    n = 0
    for mname, m in repo.modules.items():
        if ".models.deeponet." not in mname:
            continue
        for ci in m.classes.values():
            for fi in ci.methods.values():
                if fi.name not in ("forward", "_forward_branch", "fix_input") and not fi.name.startswith("_reshape"):
                    continue
                if any(ends(dump(b), "autograd.Function") for b in ci.node.bases):
                    continue
                n += 1
                rep.saw(fi)
                tmp = single_defs(fi.node)
                bad = []
                for c in ast.walk(fi.node):
                    if not (isinstance(c, ast.Call) and isinstance(c.func, ast.Attribute)):
                        continue
                    a = c.func.attr
                    recv = deref(c.func.value, tmp)
                    root = recv
                    while isinstance(root, (ast.Attribute, ast.Subscript, ast.Call)):
                        root = root.func if isinstance(root, ast.Call) else root.value
                    if a.endswith("_") and not a.startswith("_") and isinstance(root, ast.Name) and root.id == "self" and not isinstance(recv, ast.Call):
                        bad.append(f"in-place {dump(c)[:60]}")
                    if a == "view" and c.args and any(isinstance(x, ast.Attribute) and x.attr in ("as_tensor", "_t") for x in ast.walk(recv)) \
                            and any(isinstance(x, ast.Name) and x.id in fi.params and x.id != "self" for x in ast.walk(recv)):
                        bad.append(f"view of caller data {dump(c)[:60]}")
                rep.check(R, not bad, fi.site(), fi.fq, "stored tensors are read, caller data is reshaped", "; ".join(bad), f"{fi.name}: {bad}")
    if n == 0:
        rep.undecided(R, "src/torchphysics/models/deeponet", "-", "forward methods", "none found")


def r9_collection_batch(repo: Repo, rep):
    R = rep.rule("R-C09-9", "a FunctionSetCollection's function batch is the concatenation of its sets' batches in collection order, whatever the sets' sizes - "
                 "by partial evaluation on sets of 3, 2 and 4 functions", floor=2,
                 why="writing the sub-batches at offset i * len(batch) assumes equally sized sets: with sizes 3 and 2 the second set overwrites a function of the first and the last row stays uninitialised")
    from ..absdom.listeval import Evaluator, Model, NotEval, Opaque, UNKNOWN
    ci = repo.cls("problem.domains.functionsets.functionset.FunctionSetCollection")
    fi = ci.methods.get("create_function_batch")
    if fi is None:
        raise AnalysisError("FunctionSetCollection.create_function_batch vanished")
    rep.saw(fi)

    class Tensor(list):
        """rows of a tensor, known by their labels; None = uninitialised memory"""

    class Rows(Model):
        def __init__(self, rows):
            self.rows = list(rows)

        def le_getattr(self, name):
            if name in ("as_tensor", "_t"):
                return Tensor(self.rows)
            if name == "space":
                return Opaque("space")
            raise NotEval(name)

        def le_binop(self, op, other, reflected):
            if isinstance(op, ast.BitOr) and isinstance(other, Rows):
                return Rows((other.rows + self.rows) if reflected else (self.rows + other.rows))
            raise NotEval("operator on a function batch")

        def le_len(self):
            return len(self.rows)

    class FSet(Model):
        def __init__(self, tag, n):
            self.tag, self.n = tag, n

        def le_call(self, method, args, kws):
            if method == "create_function_batch":
                return Rows(f"{self.tag}{k}" for k in range(self.n))
            raise NotEval(method)

        def le_len(self):
            return self.n

    class Coll(Model):
        def __init__(self, sets):
            self.sets = sets

        def le_getattr(self, name):
            if name == "collection":
                return list(self.sets)
            if name == "function_space":
                return Opaque("function_space")
            raise NotEval(name)

        def le_len(self):
            return sum(x.n for x in self.sets)

    def resolve(e, ev, f):
        if isinstance(e, ast.Attribute) and e.attr == "shape":
            try:
                b = ev.ev(e.value, f)
            except NotEval:
                return None
            if isinstance(b, Tensor):
                return (len(b), 4, 1)
        if isinstance(e, ast.Attribute) and dump(e).endswith("output_space"):
            return Opaque("output_space")
        return None

    def on_call(e, name, args, kws, ev, f):
        if name in ("functools.reduce", "reduce") and len(e.args) in (2, 3) and dump(e.args[0]) in ("operator.or_", "operator.__or__", "lambda a, b: a | b"):
            seq = ev.ev(e.args[1], f)
            acc = ev.ev(e.args[2], f) if len(e.args) == 3 else None
            if not isinstance(seq, (list, tuple)):
                return None
            for x in seq:
                acc = x if acc is None else ev.binop(acc, ast.BitOr(), x)
            return acc
        if name == "Points.empty":
            return Rows([])
        if name == "Points" and args:
            if isinstance(args[0], Tensor):
                return Rows(list(args[0]))
            return None
        if isinstance(e.func, ast.Attribute) and e.func.attr in ("new_empty", "new_zeros") and args:
            shp = args[0] if isinstance(args[0], (tuple, list)) else args
            if shp and isinstance(shp[0], int):
                return Tensor([None] * shp[0])
        if name in ("torch.empty", "torch.zeros") and args:
            shp = args[0] if isinstance(args[0], (tuple, list)) else args
            if shp and isinstance(shp[0], int):
                return Tensor([None] * shp[0])
        if name in ("torch.cat",) and args and isinstance(args[0], (list, tuple)) and all(isinstance(x, Tensor) for x in args[0]):
            return Tensor([r for x in args[0] for r in x])
        return None
    for sizes in ((3, 2), (2, 2), (1, 3, 4)):
        sets = [FSet("abc"[i], n) for i, n in enumerate(sizes)]
        fr = Evaluator(resolve, on_call).run(fi.node.body, {"self": Coll(sets), fi.params[1]: Opaque("points")})
        want = [f"{'abc'[i]}{k}" for i, n in enumerate(sizes) for k in range(n)]
        label = f"sets of {sizes} functions: the batch lists {want}"
        got = fr.ret
        if not isinstance(got, Rows):
            rep.undecided(R, fi.site(), fi.fq, label + " (evaluable)", repr(got)[:80])
            continue
        rep.check(R, got.rows == want, fi.site(), fi.fq, label, f"{got.rows}", f"sizes {sizes}: {got.rows}")


def run(repo: Repo, rep):
    r11_branch_input_layout(repo, rep)
    r10_network_calls_keep_their_graph(repo, rep)
    r8_no_inplace_state(repo, rep)
    r9_collection_batch(repo, rep)
    from .generic import g_arg_constructor_parameters
    g_arg_constructor_parameters(repo, rep, lambda m: ".models.deeponet" in m or ".functionsets" in m, floor=10,
                                 why="a trunk net that does not pass `trunk_input_copied` on keeps the fast path for inputs that are not copies of one location set")
    r6_builder_siblings(repo, rep)
    r1_contraction(repo, rep)
    r2_reshape_agreement(repo, rep)
    r3_fast_path(repo, rep)
    r4_branch_cache(repo, rep)
    r4b_fix_always(repo, rep)
    r5_meshgrid(repo, rep)
    from .c04 import r8_per_function_points  # identical first and second derivatives w.r.t. the inputs: every input function differentiates its own copy of the locations
    r8_per_function_points(repo, rep)


_DN = "src/torchphysics/models/deeponet/deeponet.py"
_TR = "src/torchphysics/models/deeponet/trunknets.py"
_BR = "src/torchphysics/models/deeponet/branchnets.py"
_LA = "src/torchphysics/models/deeponet/layers.py"
_FS = "src/torchphysics/problem/domains/functionsets/functionset.py"
MUTANTS = [
    dict(id="C09-M20", file=_TR, old="        layers.append(TrunkLinear(hidden[i], hidden[i + 1]))\n        torch.nn.init.xavier_normal_(layers[-1].weight, gain=xavier_gains[i + 1])", new="        layers.append(TrunkLinear(hidden[i], hidden[i + 1]))\n        torch.nn.init.xavier_normal_(layers[-1].weight, gain=xavier_gains[i])", rule="R-C09-6", what="fast-path gain index off by one"),
    dict(id="C09-M1", file=_DN, old="trunk_out * self.branch.current_out.unsqueeze(1), dim=-1", new="trunk_out * self.branch.current_out.unsqueeze(1), dim=-2", rule="R-C09-1", what="sum over the component axis"),
    dict(id="C09-M2", file=_DN, old="self.branch.current_out.unsqueeze(1), dim=-1", new="self.branch.current_out.unsqueeze(0), dim=-1", rule="R-C09-1", what="branch broadcast over the function axis"),
    dict(id="C09-M3", file=_BR, old="            -1, self.output_space.dim, int(self.output_neurons / self.output_space.dim)\n        )", new="            -1, int(self.output_neurons / self.output_space.dim), self.output_space.dim\n        )", rule="R-C09-2", what="branch reshape tail swapped"),
    dict(id="C09-M4", file=_LA, old="            grad_input = grad_output.matmul(weight)", new="            grad_input = grad_output.detach().matmul(weight)", rule="R-C09-3", what="detach in backward"),
    dict(id="C09-M5", file=_LA, old="        ctx.save_for_backward(input, weight, bias)\n        output = input.matmul(weight.transpose(-1, -2))", new="        weight_t = weight.transpose(-1, -2)\n        ctx.save_for_backward(input, weight_t, bias)\n        output = input.matmul(weight_t)", rule="R-C09-3", what="derived tensor saved for backward"),
    dict(id="C09-M6", file=_DN, old="        if iteration_num != function_set.current_iteration_num:\n            function_set.current_iteration_num = iteration_num\n", new="        if iteration_num != function_set.current_iteration_num:\n", rule="R-C09-4", what="iteration number never remembered"),
    dict(id="C09-M7", file=_BR, old="        if isinstance(function, FunctionSet):\n            function.sample_params(device=device)\n", new="        if isinstance(function, FunctionSet):\n", rule="R-C09-4", what="function set not sampled before discretisation"),
    dict(id="C09-M8", file=_FS, old="        params_repeated = self.param_batch.as_tensor.unsqueeze(1).repeat(1, n_points, 1)", new="        params_repeated = self.param_batch.as_tensor.unsqueeze(0).repeat(n_points, 1, 1)", rule="R-C09-5", what="parameters tiled along the wrong axis"),
    dict(id="C09-M9", file=_LA, old="        if ctx.needs_input_grad[1]:\n            grad_weight = grad_output.transpose(-1, -2).matmul(input)", new="        if ctx.needs_input_grad[1]:\n            grad_weight = grad_output.transpose(-1, -2).matmul(weight)", rule="R-C09-3", what="weight gradient built from the weight"),
]
TWINS = [
    dict(id="C09-T1", file=_DN, old="        out = torch.sum(trunk_out * self.branch.current_out.unsqueeze(1), dim=-1)", new="        branch_out = self.branch.current_out.unsqueeze(1)\n        out = (branch_out * trunk_out).sum(dim=-1)", what="method form, commuted"),
]

"""Rules that are not tied to one property: each property that uses one names the modules it applies to."""
from __future__ import annotations

import ast
from typing import Callable

from ..repo import Repo


def g_arg_constructor_parameters(repo: Repo, rep, in_scope: Callable[[str], bool], floor: int, why: str):
    """G-ARG: every parameter of a constructor is read in its body (stored, forwarded to the base constructor, or used).
    A parameter that is accepted and never read is a value the caller passes and the object silently ignores."""
    R = rep.rule("G-ARG", "every constructor parameter is read by the constructor (stored, used, or forwarded to the base class): none is accepted and ignored", floor=floor, why=why)
    for ci in repo.all_classes():
        if not in_scope(ci.module.name):
            continue
        fi = ci.methods.get("__init__")
        if fi is None:
            continue
        rep.saw(fi)
        a = fi.node.args
        ps = [x.arg for x in a.posonlyargs + a.args + a.kwonlyargs][1:]
        used = {x.id for x in ast.walk(fi.node) if isinstance(x, ast.Name) and isinstance(x.ctx, ast.Load)}
        unused = [p for p in ps if p not in used and not p.startswith("_")]
        rep.check(R, not unused, fi.site(), fi.fq, "all parameters are read", f"never read: {unused}", f"ignored constructor parameters {unused}")

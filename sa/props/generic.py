"""Rules that are not tied to one property: each property that uses one names the modules it applies to."""
from __future__ import annotations

import ast
from typing import Callable

from ..repo import Repo


def g_arg_constructor_parameters(repo: Repo, rep, in_scope: Callable[[str], bool], floor: int, why: str):
    """G-ARG: every parameter of a constructor is read in its body (stored, forwarded to the base constructor, or used).
    A parameter that is accepted and never read is a value the caller passes and the object silently ignores."""
    R = rep.rule("G-ARG", "every constructor parameter is read by the constructor (stored, used, or forwarded to the base class): none is accepted and ignored", floor=floor, why=why)
    for ci in repo.all_classes():
        if not in_scope(ci.module.name):
            continue
        fi = ci.methods.get("__init__")
        if fi is None:
            continue
        rep.saw(fi)
        a = fi.node.args
        ps = [x.arg for x in a.posonlyargs + a.args + a.kwonlyargs][1:]
        used = {x.id for x in ast.walk(fi.node) if isinstance(x, ast.Name) and isinstance(x.ctx, ast.Load)}
        unused = [p for p in ps if p not in used and not p.startswith("_")]
        rep.check(R, not unused, fi.site(), fi.fq, "all parameters are read", f"never read: {unused}", f"ignored constructor parameters {unused}")


def g_pos_base_constructor_arguments(repo: Repo, rep, in_scope: Callable[[str], bool], floor: int, why: str):
    """G-POS: a constructor that hands its parameters on to the base constructor BY POSITION puts each of them into the base parameter of the same
    name: a variable named like base parameter q arriving in another base parameter p is a swapped argument (keywords cannot be swapped)."""
    R = rep.rule("G-POS", "arguments handed to the base constructor by position arrive in the parameter they are named after (a name of another base parameter in that slot is a swap)",
                 floor=floor, why=why)
    for ci in repo.all_classes():
        if not in_scope(ci.module.name):
            continue
        fi = ci.methods.get("__init__")
        if fi is None:
            continue
        base = None
        for c in repo.mro(ci)[1:]:
            if "__init__" in c.methods:
                base = c.methods["__init__"]
                break
        if base is None:
            continue
        a = base.node.args
        bps = [x.arg for x in a.posonlyargs + a.args][1:]
        allb = set(bps) | {x.arg for x in a.kwonlyargs}
        for n in ast.walk(fi.node):
            if not (isinstance(n, ast.Call) and ast.unparse(n.func) in ("super().__init__", f"super({ci.name}, self).__init__")):
                continue
            rep.saw(fi)
            swapped = []
            for k, arg in enumerate(n.args):
                if isinstance(arg, ast.Starred):
                    break
                if isinstance(arg, ast.Name) and arg.id in allb and (k >= len(bps) or bps[k] != arg.id):
                    swapped.append(f"`{arg.id}` arrives in `{bps[k] if k < len(bps) else '?'}`")
            rep.check(R, not swapped, fi.site(n), fi.fq, f"positional arguments of super().__init__ match {base.fq}({', '.join(bps)})", "; ".join(swapped), "; ".join(swapped))

"""C03 — differential operators equal the analytic derivatives, row by row.

Decided: the autograd call discipline (sum-then-grad, create_graph), component /
offset pairing in div / laplacian / jac, the index tables of rot / sym_grad /
convective / normal_derivative / matrix_div, zero short-circuits, accumulator
dtype/device.  Not decided: numerical agreement with analytic derivatives,
autograd's behaviour for unused variables."""
from __future__ import annotations

import ast
from typing import List, Optional

from ..absdom.poly import RF, NotPoly, to_rf
from ..flow import RAISE, attr_chain, def_id, dump, kwarg, paths
from ..repo import AnalysisError, Repo
from ..util import ends

EXPLANATION = (
    "Every torch.autograd.grad call of differentialoperators.py is checked for the sum-then-grad discipline with create_graph=True; "
    "the component indices of differentiated outputs and accumulated gradient entries are extracted as affine forms (offset + i, "
    "offset advancing by the variable's dimension); rot / sym_grad / convective / normal_derivative / matrix_div are matched against "
    "their index tables; zero short-circuits must skip only the affected variable; accumulators filled in place must inherit dtype "
    "and device from an input."
)
ASSUMPTIONS = [
    "rows of the model output depend only on the same rows of the inputs (so d(sum_i u_i)/dx gives per-row derivatives)",
    "torch.autograd.grad semantics (trusted)",
]
MOD = "utils.differentialoperators"
OPERATORS = ("laplacian", "grad", "normal_derivative", "div", "jac", "rot", "partial", "convective", "sym_grad", "matrix_div")


def _grad_calls(node):
    return [c for c in ast.walk(node) if isinstance(c, ast.Call) and attr_chain(c.func) == "torch.autograd.grad"]


def r1_call_discipline(repo: Repo, rep):
    R = rep.rule("R-C03-1", "every torch.autograd.grad differentiates a scalar obtained by .sum() of a value derived from the operator's input, w.r.t. the loop's variable, "
                 "with create_graph=True, taking result [0]", floor=6,
                 why="without create_graph second derivatives are cut; differentiating a non-scalar or another tensor gives a different quantity")
    m = repo.module(MOD)
    for name in OPERATORS:
        fi = m.functions.get(name)
        if fi is None:
            raise AnalysisError(f"operator {name} vanished")
        rep.saw(fi)
        vararg = fi.node.args.vararg.arg if fi.node.args.vararg else None
        for c in _grad_calls(fi.node):
            out = c.args[0] if c.args else kwarg(c, "outputs")
            inp = c.args[1] if len(c.args) > 1 else kwarg(c, "inputs")
            cg = kwarg(c, "create_graph")
            scalar = isinstance(out, ast.Call) and isinstance(out.func, ast.Attribute) and out.func.attr == "sum" and not out.args and not out.keywords
            rep.check(R, scalar, fi.site(c), fi.fq, "differentiated quantity is `<tensor>.sum()` (full reduction)", dump(out)[:80], dump(out)[:80])
            rep.check(R, cg is not None and dump(cg) == "True", fi.site(c), fi.fq, "create_graph=True", f"create_graph={dump(cg)}", f"create_graph={dump(cg)}")
            # the variable is the loop variable over the *variables argument
            loopvars = set()
            for l in ast.walk(fi.node):
                if isinstance(l, ast.For) and vararg and any(isinstance(n, ast.Name) and n.id == vararg for n in ast.walk(l.iter)):
                    loopvars |= {n.id for n in ast.walk(l.target) if isinstance(n, ast.Name)}
            rep.check(R, inp is not None and dump(inp) in loopvars, fi.site(c), fi.fq, f"differentiation w.r.t. the current element of *{vararg}", dump(inp), dump(inp))
            par = _parent(fi.node, c)
            rep.check(R, isinstance(par, ast.Subscript) and dump(par.slice) == "0", fi.site(c), fi.fq, "the gradient w.r.t. that variable is taken ([0])", dump(par)[:60] if par is not None else "", "result index")


def _parent(root, target):
    for n in ast.walk(root):
        for c in ast.iter_child_nodes(n):
            if c is target:
                return n
    return None


def _narrow(e: ast.AST):
    """x.narrow(-1, K, 1) / x[..., K:K+1] / x[:, K] -> (base text, index expr)"""
    if isinstance(e, ast.Call) and isinstance(e.func, ast.Attribute) and e.func.attr == "narrow" and len(e.args) == 3 and dump(e.args[2]) == "1":
        return dump(e.func.value), dump(e.args[0]), e.args[1]
    if isinstance(e, ast.Subscript) and isinstance(e.slice, ast.Tuple) and len(e.slice.elts) >= 2 and not getattr(e, "_tuple_elt", False):
        elts = e.slice.elts
        last = elts[-1]
        if isinstance(last, ast.Slice) and last.lower is not None and last.upper is not None:
            return dump(e.value), "-1", last.lower
        if not isinstance(last, ast.Slice):
            return dump(e.value), "-1", last
    return None


def r2_pairing(repo: Repo, rep):
    R = rep.rule("R-C03-2", "component pairing: div differentiates output component offset+i and adds gradient component i, the offset advancing by the variable's "
                 "dimension; laplacian differentiates and accumulates the same component i for every variable; jac: rows over output components, columns over variables in call order",
                 floor=6, why="a wrong offset differentiates the wrong output component as soon as a third variable (or a vector variable) is passed")
    m = repo.module(MOD)
    # ---- div
    fi = m.functions.get("div")
    rep.saw(fi)
    va = fi.node.args.vararg.arg
    outer = [l for l in ast.walk(fi.node) if isinstance(l, ast.For) and dump(l.iter) == va]
    zipped = [l for l in ast.walk(fi.node) if isinstance(l, ast.For) and isinstance(l.iter, ast.Call) and attr_chain(l.iter.func) == "zip"
              and any(dump(a) == va for a in l.iter.args) and isinstance(l.target, ast.Tuple)]
    if len(outer) != 1 and len(zipped) == 1:
        _div_precomputed_offsets(repo, rep, R, fi, zipped[0], va)
    elif len(outer) != 1:
        rep.undecided(R, fi.site(), fi.fq, f"one loop over *{va}", f"{len(outer)}")
    else:
        ol = outer[0]
        v = dump(ol.target)
        inner = [l for l in ol.body if isinstance(l, ast.For)]
        gcs = _grad_calls(ol)
        if len(inner) == 1 and len(gcs) == 1 and dump(inner[0].iter).replace(" ", "") == f"range({v}.shape[-1])":
            i = dump(inner[0].target)
            out = gcs[0].args[0].func.value if isinstance(gcs[0].args[0], ast.Call) and isinstance(gcs[0].args[0].func, ast.Attribute) else None
            nr = _narrow(out) if out is not None else None
            offs = None
            if nr is not None and nr[0] == fi.params[0]:
                def atom(n, i=i):
                    if isinstance(n, ast.Name):
                        return RF.atom(n.id)
                    return None
                try:
                    idx = to_rf(nr[2], atom)
                    offs = idx - RF.atom(i)
                    ok = len(offs.atoms()) == 1 and i not in offs.atoms()
                    rep.check(R, ok and nr[1] == "-1", fi.site(gcs[0]), fi.fq, "differentiated output component = offset + i (last axis)", f"index {idx!r}", f"index {idx!r}")
                except NotPoly as e:
                    rep.undecided(R, fi.site(gcs[0]), fi.fq, "affine output index", str(e))
            else:
                rep.violation(R, fi.site(gcs[0]), fi.fq, "a single output component is differentiated per (variable, i)", dump(gcs[0].args[0])[:80], dump(gcs[0].args[0])[:80])
            # accumulated gradient component
            accs = [n for n in ast.walk(inner[0]) if isinstance(n, (ast.Assign, ast.AugAssign))]
            comp_ok = False
            for a in accs:
                val = a.value
                for sub in ast.walk(val):
                    nr2 = _narrow(sub)
                    if nr2 is not None and nr2[2] is not None and dump(nr2[2]) == i and nr2[1] == "-1":
                        comp_ok = True
            rep.check(R, comp_ok, fi.site(inner[0]), fi.fq, "gradient component i (last axis) is accumulated", "no `.narrow(-1, i, 1)` of the gradient", "gradient component")
            # offset advance
            if offs is not None and len(offs.atoms()) == 1:
                off = list(offs.atoms())[0]
                adv = [s for s in ol.body if isinstance(s, (ast.AugAssign, ast.Assign)) and dump(s.targets[0] if isinstance(s, ast.Assign) else s.target) == off]
                good = False
                detail = "offset never advanced"
                if len(adv) == 1 and ol.body.index(adv[0]) > ol.body.index(inner[0]):
                    a = adv[0]
                    step = dump(a.value).replace(" ", "") if isinstance(a, ast.AugAssign) and isinstance(a.op, ast.Add) else None
                    if isinstance(a, ast.Assign):
                        t = dump(a.value).replace(" ", "")
                        step = t[len(off) + 1:] if t.startswith(off + "+") else None
                    detail = f"{off} advances by {step}"
                    good = step in (f"{v}.shape[-1]", f"{i}+1", f"1+{i}", f"{v}.size(-1)")
                elif len(adv) == 1:
                    detail = "offset advanced before the component loop"
                rep.check(R, good, fi.site(adv[0]) if adv else fi.site(ol), fi.fq, "offset += dimension of the variable, once per variable, after its components",
                          detail, detail)
        else:
            rep.undecided(R, fi.site(ol), fi.fq, "component loop `for i in range(vari.shape[-1])` with one autograd call", "idiom not recognised")
    # ---- laplacian
    fi = m.functions.get("laplacian")
    rep.saw(fi)
    va = fi.node.args.vararg.arg
    outer = [l for l in ast.walk(fi.node) if isinstance(l, ast.For) and dump(l.iter) == va]
    if len(outer) != 1:
        rep.undecided(R, fi.site(), fi.fq, f"one loop over *{va}", f"{len(outer)}")
    else:
        ol = outer[0]
        v = dump(ol.target)
        inner = [l for l in ast.walk(ol) if isinstance(l, ast.For) and l is not ol]
        if len(inner) == 1 and dump(inner[0].iter).replace(" ", "") == f"range({v}.shape[-1])":
            i = dump(inner[0].target)
            gcs = _grad_calls(inner[0])
            good = False
            if len(gcs) == 1:
                out = gcs[0].args[0].func.value if isinstance(gcs[0].args[0], ast.Call) and isinstance(gcs[0].args[0].func, ast.Attribute) else None
                nr = _narrow(out) if out is not None else None
                acc = [n for n in ast.walk(inner[0]) if isinstance(n, (ast.AugAssign, ast.Assign)) and any(_narrow(s) is not None for s in ast.walk(n.value))]
                acc_idx = [dump(_narrow(s)[2]) for a in acc for s in ast.walk(a.value) if _narrow(s) is not None and not dump(s) == dump(out)]
                good = nr is not None and dump(nr[2]) == i and nr[1] == "-1" and acc_idx and all(x == i for x in acc_idx)
                detail = f"differentiated component {dump(nr[2]) if nr else None}, accumulated {acc_idx}"
            else:
                detail = f"{len(gcs)} second-derivative calls"
            rep.check(R, good, fi.site(inner[0]), fi.fq, "second derivative of gradient component i, component i of it accumulated", detail, detail)
        else:
            rep.undecided(R, fi.site(ol), fi.fq, "component loop over the variable's dimension", "idiom not recognised")
        exits = [type(s).__name__ for s in ast.walk(ol) if isinstance(s, (ast.Return, ast.Break))]
        rep.check(R, not exits, fi.site(ol), fi.fq, "every variable of the call contributes (no return/break inside the variable loop)", str(exits), str(exits))
    # ---- jac
    fi = m.functions.get("jac")
    rep.saw(fi)
    va = fi.node.args.vararg.arg
    mo = fi.params[0]
    good = False
    detail = ""
    rows = [l for l in fi.node.body if isinstance(l, ast.For)]
    if len(rows) == 1 and dump(rows[0].iter).replace(" ", "") in (f"range({mo}.shape[1])", f"range({mo}.shape[-1])"):
        i = dump(rows[0].target)
        cols = [l for l in rows[0].body if isinstance(l, ast.For)]
        gcs = _grad_calls(rows[0])
        if len(cols) == 1 and dump(cols[0].iter) == va and len(gcs) == 1:
            out = gcs[0].args[0].func.value if isinstance(gcs[0].args[0], ast.Call) and isinstance(gcs[0].args[0].func, ast.Attribute) else None
            nr = _narrow(out) if out is not None else None
            good = nr is not None and nr[0] == mo and dump(nr[2]) == i
            detail = f"row index {dump(nr[2]) if nr else None}"
            # structure of the result: stack([cat([grad ...], dim=1)], dim=1) on the expanded return
            for p in paths(fi.node):
                if p.ret is RAISE or p.ret is None:
                    continue
                r = p.ret
                ok_stack = isinstance(r, ast.Call) and attr_chain(r.func) == "torch.stack" and dump(kwarg(r, "dim", 1)) == "1" and isinstance(r.args[0], ast.List) and len(r.args[0].elts) == 1
                if ok_stack:
                    row = r.args[0].elts[0]
                    ok_stack = isinstance(row, ast.Call) and attr_chain(row.func) in ("torch.cat", "torch.column_stack") and (attr_chain(row.func) == "torch.column_stack" or dump(kwarg(row, "dim", 1)) in ("1", "-1")) \
                        and isinstance(row.args[0], ast.List) and len(row.args[0].elts) == 1 and "torch.autograd.grad(" in dump(row.args[0].elts[0])
                good = good and ok_stack
                if not ok_stack:
                    detail += f"; result {dump(r)[:80]}"
                break
    rep.check(R, good, fi.site(), fi.fq, "J[:, i, :] = cat_v d(u_i)/dv (variables in call order), rows stacked on axis 1", detail or "idiom not recognised", detail or "jac")


class _NoList(Exception):
    pass


def _sym_list(e: ast.AST, va: str, env):
    """evaluate a small list expression over the variables [v0, v1, v2] with symbolic dimensions d0, d1, d2"""
    D = [RF.atom(f"d{j}") for j in range(3)]
    if isinstance(e, ast.Name) and e.id == va:
        return [("var", j) for j in range(3)]
    if isinstance(e, ast.Name) and e.id in env:
        return _sym_list(env[e.id], va, env)
    if isinstance(e, (ast.List, ast.Tuple)):
        return [_sym_scalar(x, va, env, None) for x in e.elts]
    if isinstance(e, ast.BinOp) and isinstance(e.op, ast.Add):
        a, b = _sym_list(e.left, va, env), _sym_list(e.right, va, env)
        return a + b
    if isinstance(e, ast.Subscript) and isinstance(e.slice, ast.Slice):
        base = _sym_list(e.value, va, env)
        lo = e.slice.lower.value if isinstance(e.slice.lower, ast.Constant) else (None if e.slice.lower is None else _bad())
        hi = None
        if e.slice.upper is not None:
            u = e.slice.upper
            hi = u.value if isinstance(u, ast.Constant) else (-u.operand.value if isinstance(u, ast.UnaryOp) and isinstance(u.operand, ast.Constant) else _bad())
        return base[lo:hi]
    if isinstance(e, ast.ListComp) and len(e.generators) == 1 and not e.generators[0].ifs and isinstance(e.generators[0].target, ast.Name):
        g = e.generators[0]
        items = _sym_list(g.iter, va, env)
        return [_sym_scalar(e.elt, va, env, (g.target.id, it)) for it in items]
    if isinstance(e, ast.Call) and attr_chain(e.func) in ("list", "tuple") and len(e.args) == 1:
        return _sym_list(e.args[0], va, env)
    if isinstance(e, ast.Call) and attr_chain(e.func) in ("itertools.accumulate", "accumulate", "np.cumsum", "numpy.cumsum") and len(e.args) == 1:
        items = _sym_list(e.args[0], va, env)
        out, acc = [], RF.const(0)
        for it in items:
            acc = acc + it
            out.append(acc)
        return out
    raise _NoList(dump(e)[:60])


def _bad():
    raise _NoList("slice bound")


def _sym_scalar(e, va, env, binding):
    if isinstance(e, ast.Constant) and isinstance(e.value, int):
        return RF.const(e.value)
    if binding is not None:
        name, item = binding
        t = dump(e).replace(" ", "")
        if t in (f"{name}.shape[-1]", f"{name}.size(-1)", f"{name}.shape[1]") and isinstance(item, tuple) and item[0] == "var":
            return RF.atom(f"d{item[1]}")
        if t == name and not isinstance(item, tuple):
            return item
    if isinstance(e, ast.BinOp) and isinstance(e.op, ast.Add):
        return _sym_scalar(e.left, va, env, binding) + _sym_scalar(e.right, va, env, binding)
    raise _NoList(dump(e)[:60])


def _div_precomputed_offsets(repo, rep, R, fi, loop, va):
    """for vari, off in zip(variables, OFFSETS): OFFSETS must be the exclusive cumulative sums of the dimensions"""
    names = [dump(t) for t in loop.target.elts]
    args = [dump(a) for a in loop.iter.args]
    if len(names) != 2 or len(args) != 2:
        rep.undecided(R, fi.site(loop), fi.fq, "zip(variables, offsets)", dump(loop.iter)[:80])
        return
    vi = args.index(va)
    off_name, off_expr = names[1 - vi], loop.iter.args[1 - vi]
    env = {}
    for st in fi.node.body:
        if st is loop:
            break
        if isinstance(st, ast.Assign) and len(st.targets) == 1 and isinstance(st.targets[0], ast.Name):
            env[st.targets[0].id] = st.value
    try:
        offs = _sym_list(off_expr, va, env)
    except _NoList as e:
        rep.undecided(R, fi.site(loop), fi.fq, "offset list evaluable", str(e))
        return
    want = [RF.const(0), RF.atom("d0"), RF.atom("d0") + RF.atom("d1")]
    got = offs[:3]
    ok = len(got) == 3 and all(isinstance(a, RF) and a == b for a, b in zip(got, want))
    rep.check(R, ok, fi.site(loop), fi.fq, "offsets of three variables of dimensions d0, d1, d2 are [0, d0, d0 + d1] (exclusive cumulative sums)",
              f"offsets = {got}", f"offsets = {got}")
    # the component loop must still use offset + i
    src = ast.unparse(loop).replace(" ", "")
    rep.check(R, f"narrow(-1,{off_name}+i,1)" in src or f"narrow(-1,i+{off_name},1)" in src, fi.site(loop), fi.fq, "differentiated output component = offset + i", "pattern not found", "offset+i")
    rep.ok(R, fi.site(loop), fi.fq, "gradient component i accumulated", "see component loop") if "narrow(-1,i,1)" in src else rep.violation(R, fi.site(loop), fi.fq, "gradient component i accumulated", "not found", "gradient component")
    rep.ok(R, fi.site(loop), fi.fq, "offsets precomputed (no running update needed)", "zip idiom")


ROT = {0: ((2, 1), (1, 2)), 1: ((0, 2), (2, 0)), 2: ((1, 0), (0, 1))}


def r3_tables(repo: Repo, rep):
    R = rep.rule("R-C03-3", "rot[c] = J[a,b] - J[b,a] for cyclic (c,a,b); sym_grad = (J + J^T)/2 on axes (1,2); convective = J·v; normal_derivative = sum over the "
                 "last axis of grad*n; matrix_div applies div to every row", floor=7,
                 why="each of these is a fixed index table over the Jacobian")
    m = repo.module(MOD)
    fi = m.functions.get("rot")
    rep.saw(fi)
    for p in paths(fi.node):
        if p.ret is RAISE:
            continue
        import re as _re
        stores = {}
        for e in p.events:
            if e.kind == "store" and e.raw is not None:
                mm = _re.search(r"\[(:,\d)\]$", dump(e.raw).replace(" ", ""))
                if mm:
                    stores[mm.group(1)] = e.value
        for c, ((a1, b1), (a2, b2)) in ROT.items():
            v = stores.get(f":,{c}")
            good = isinstance(v, ast.BinOp) and isinstance(v.op, ast.Sub)
            if good:
                l, r = dump(v.left).replace(" ", ""), dump(v.right).replace(" ", "")
                good = l.endswith(f"[:,{a1},{b1}]") and r.endswith(f"[:,{a2},{b2}]") and "jac(" in l
            rep.check(R, good, fi.site(), fi.fq, f"rot[:, {c}] = J[:, {a1}, {b1}] - J[:, {a2}, {b2}]", dump(v)[-70:] if v is not None else "missing", f"rot{c}: " + (dump(v)[-60:] if v is not None else "missing"))
    fi = m.functions.get("sym_grad")
    rep.saw(fi)
    for p in paths(fi.node):
        if p.ret is RAISE:
            continue
        t = dump(p.ret).replace(" ", "")
        J = f"jac({fi.params[0]},*{fi.node.args.vararg.arg})"
        ok = t in (f"0.5*({J}+torch.transpose({J},1,2))", f"({J}+torch.transpose({J},1,2))/2", f"0.5*({J}+{J}.transpose(1,2))", f"0.5*(torch.transpose({J},1,2)+{J})")
        rep.check(R, ok, fi.site(), fi.fq, "0.5 * (J + transpose(J, 1, 2))", t[:120], t[:120])
    fi = m.functions.get("convective")
    rep.saw(fi)
    for p in paths(fi.node):
        if p.ret is RAISE:
            continue
        t = dump(p.ret).replace(" ", "")
        J = f"jac({fi.params[0]},*{fi.node.args.vararg.arg})"
        ok = t == f"torch.bmm({J},{fi.params[1]}.unsqueeze(dim=2)).squeeze(dim=2)"
        rep.check(R, ok, fi.site(), fi.fq, "bmm(J, v[..., None])[..., 0]", t[:120], t[:120])
    fi = m.functions.get("normal_derivative")
    rep.saw(fi)
    for p in paths(fi.node):
        if p.ret is RAISE:
            continue
        r = p.ret
        ok = False
        if isinstance(r, ast.Call) and (attr_chain(r.func) == "torch.sum" or (isinstance(r.func, ast.Attribute) and r.func.attr == "sum")):
            base = r.args[0] if attr_chain(r.func) == "torch.sum" else r.func.value
            d = kwarg(r, "dim", 1 if attr_chain(r.func) == "torch.sum" else 0)
            kd = kwarg(r, "keepdim")
            g = f"grad({fi.params[0]}, *{fi.node.args.vararg.arg})"
            prod = dump(base) in (f"{g} * {fi.params[1]}", f"{fi.params[1]} * {g}")
            ok = prod and d is not None and dump(d) == "-1" and kd is not None and dump(kd) == "True"
        rep.check(R, ok, fi.site(), fi.fq, "sum(grad * normals, dim=-1, keepdim=True)", dump(r)[:120], dump(r)[:120])
    fi = m.functions.get("matrix_div")
    rep.saw(fi)
    mo = fi.params[0]
    rows = [l for l in fi.node.body if isinstance(l, ast.For)]
    ok = False
    if len(rows) == 1 and dump(rows[0].iter).replace(" ", "") == f"range({mo}.shape[1])":
        i = dump(rows[0].target)
        src = ast.unparse(rows[0]).replace(" ", "")
        ok = f"{mo}.narrow(1,{i},1).squeeze(1)" in src and f"[:,{i}:{i}+1]=div(" in src
    rep.check(R, ok, fi.site(), fi.fq, "out[:, i] = div(row i of the matrix field)", "idiom not recognised" if not ok else "ok", "matrix_div")
    fi = m.functions.get("grad")
    rep.saw(fi)
    for p in paths(fi.node):
        if p.ret is RAISE:
            continue
        t = dump(p.ret).replace(" ", "")
        ok = t.startswith(("torch.column_stack([", "torch.cat([")) and "create_graph=True" in t
        rep.check(R, ok, fi.site(), fi.fq, "gradients of all variables concatenated column-wise in call order", t[:100], t[:100])


def r4_short_circuit(repo: Repo, rep):
    R = rep.rule("R-C03-4", "zero short-circuits: when the graph ends (grad_fn is None) only the affected contribution is zero: laplacian skips that variable, "
                 "partial returns zeros shaped like the variable", floor=2,
                 why="returning early drops the contributions of the remaining variables; the result then depends on the variable order")
    m = repo.module(MOD)
    fi = m.functions.get("laplacian")
    rep.saw(fi)
    ifs = [n for n in ast.walk(fi.node) if isinstance(n, ast.If) and "grad_fn is None" in dump(n.test)]
    if not ifs:
        rep.violation(R, fi.site(), fi.fq, "a vanished graph (variable the model is linear in) yields zero instead of an error", "no grad_fn test", "no short-circuit")
    for n in ifs:
        kinds = [type(s).__name__ for s in n.body]
        rep.check(R, kinds == ["Continue"], fi.site(n), fi.fq, "`continue` with the next variable", str(kinds), str(kinds))
    fi = m.functions.get("partial")
    rep.saw(fi)
    ifs = [n for n in ast.walk(fi.node) if isinstance(n, ast.If) and "grad_fn is None" in dump(n.test)]
    if not ifs:
        rep.violation(R, fi.site(), fi.fq, "a vanished graph yields zero instead of an error", "no grad_fn test", "no short-circuit")
    for n in ifs:
        ok = len(n.body) == 1 and isinstance(n.body[0], ast.Return) and dump(n.body[0].value) in ("torch.zeros_like(inp)",)
        loopv = [dump(l.target) for l in ast.walk(fi.node) if isinstance(l, ast.For)]
        ok = ok or (len(n.body) == 1 and isinstance(n.body[0], ast.Return) and any(dump(n.body[0].value) == f"torch.zeros_like({v})" for v in loopv))
        rep.check(R, ok, fi.site(n), fi.fq, "returns zeros shaped like the current variable (all further derivatives of 0 are 0)", dump(n.body[0])[:80], dump(n.body[0])[:80])


def r5_accumulators(repo: Repo, rep):
    R = rep.rule("R-C03-5", "accumulators that are filled in place inherit dtype and device from an input (or accumulation is out of place)", floor=3,
                 why="a float32 torch.zeros buffer filled in place silently down-casts float64 derivatives; a cpu buffer fails for cuda inputs")
    m = repo.module(MOD)
    for name in OPERATORS:
        fi = m.functions.get(name)
        allocs = [n for n in ast.walk(fi.node) if isinstance(n, ast.Assign) and isinstance(n.value, ast.Call) and attr_chain(n.value.func) in ("torch.zeros", "torch.empty", "torch.ones")]
        for a in allocs:
            rep.saw(fi)
            var = dump(a.targets[0])
            inplace = False
            for n in ast.walk(fi.node):
                if isinstance(n, ast.AugAssign) and dump(n.target) == var:
                    inplace = True
                if isinstance(n, ast.Assign) and isinstance(n.targets[0], ast.Subscript) and dump(n.targets[0].value) == var:
                    inplace = True
            has_dtype = kwarg(a.value, "dtype") is not None and ".dtype" in dump(kwarg(a.value, "dtype"))
            has_dev = kwarg(a.value, "device") is not None and ".device" in dump(kwarg(a.value, "device"))
            if inplace:
                rep.check(R, has_dtype and has_dev, fi.site(a), fi.fq, f"in-place accumulator `{var}` created with dtype=<input>.dtype and device=<input>.device",
                          f"{dump(a.value)[:110]}", f"{var}: dtype={has_dtype} device={has_dev}")
            else:
                rep.check(R, has_dev, fi.site(a), fi.fq, f"out-of-place accumulator `{var}` on the input's device (dtype follows by promotion)", dump(a.value)[:110], f"{var}: device={has_dev}")


def run(repo: Repo, rep):
    r1_call_discipline(repo, rep)
    r2_pairing(repo, rep)
    r3_tables(repo, rep)
    r4_short_circuit(repo, rep)
    r5_accumulators(repo, rep)


_D = "src/torchphysics/utils/differentialoperators.py"
MUTANTS = [
    dict(id="C03-M1", file=_D, old="            Du = torch.autograd.grad(\n                model_out.narrow(-1, var_dim + i, 1).sum(), vari, create_graph=True\n            )[0]", new="            Du = torch.autograd.grad(\n                model_out.narrow(-1, var_dim + i, 1).sum(), vari, create_graph=False\n            )[0]", rule="R-C03-1", what="create_graph dropped in div"),
    dict(id="C03-M2", file=_D, old="model_out.narrow(-1, var_dim + i, 1).sum()", new="model_out.narrow(-1, i, 1).sum()", rule="R-C03-2", what="offset ignored in div"),
    dict(id="C03-M3", file=_D, old="    rotation[:, 1] = jacobian[:, 0, 2] - jacobian[:, 2, 0]", new="    rotation[:, 1] = jacobian[:, 2, 0] - jacobian[:, 0, 2]", rule="R-C03-3", what="rot component sign"),
    dict(id="C03-M4", file=_D, old="        if grad.grad_fn is None:\n            continue", new="        if grad.grad_fn is None:\n            return laplacian", rule=None, rules=["R-C03-4", "R-C03-2"], what="early return drops later variables"),
    dict(id="C03-M5", file=_D, old="    return normal_derivatives.sum(dim=-1, keepdim=True)", new="    return normal_derivatives.sum(dim=1, keepdim=True)", rule="R-C03-3", what="reduction axis 1"),
    dict(id="C03-M6", file=_D, old="        var_dim += i + 1", new="        var_dim += 1", rule="R-C03-2", what="offset advances by one"),
    dict(id="C03-M7", file=_D, old="            laplacian += D2u.narrow(-1, i, 1)", new="            laplacian += D2u.narrow(-1, 0, 1)", rule="R-C03-2", what="always the first second-derivative component"),
    dict(id="C03-M8", file=_D, old="    return 0.5 * (jac_matrix + torch.transpose(jac_matrix, 1, 2))", new="    return 0.5 * (jac_matrix + torch.transpose(jac_matrix, 0, 1))", rule="R-C03-3", what="transpose of the batch axis"),
]
TWINS = [
    dict(id="C03-T1", file=_D, old="        var_dim += i + 1", new="        var_dim += vari.shape[-1]", what="explicit dimension"),
    dict(id="C03-T2", file=_D, old="            divergence = divergence + Du.narrow(-1, i, 1)", new="            divergence = divergence + Du[..., i : i + 1]", what="slice instead of narrow"),
]

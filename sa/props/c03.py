"""C03 — differential operators equal the analytic derivatives, row by row.

Decided: the autograd call discipline (sum-then-grad, create_graph), component /
offset pairing in div / laplacian / jac, the index tables of rot / sym_grad /
convective / normal_derivative / matrix_div, zero short-circuits, accumulator
dtype/device.  Not decided: numerical agreement with analytic derivatives,
autograd's behaviour for unused variables."""
from __future__ import annotations

import ast
from typing import List, Optional

from ..absdom.poly import RF, NotPoly, to_rf
from ..flow import RAISE, attr_chain, def_id, dump, kwarg, paths
from ..repo import AnalysisError, Repo
from ..util import ends

EXPLANATION = (
    "Every torch.autograd.grad call of differentialoperators.py is checked for the sum-then-grad discipline with create_graph=True; "
    "the component indices of differentiated outputs and accumulated gradient entries are extracted as affine forms (offset + i, "
    "offset advancing by the variable's dimension); rot / sym_grad / convective / normal_derivative / matrix_div are matched against "
    "their index tables; zero short-circuits must skip only the affected variable; accumulators filled in place must inherit dtype "
    "and device from an input."
)
ASSUMPTIONS = [
    "rows of the model output depend only on the same rows of the inputs (so d(sum_i u_i)/dx gives per-row derivatives)",
    "torch.autograd.grad semantics (trusted)",
]
MOD = "utils.differentialoperators"
OPERATORS = ("laplacian", "grad", "normal_derivative", "div", "jac", "rot", "partial", "convective", "sym_grad", "matrix_div")


def _grad_calls(node):
    return [c for c in ast.walk(node) if isinstance(c, ast.Call) and attr_chain(c.func) == "torch.autograd.grad"]


def _op_paths(fi):
    """non-raising paths of an operator, loop-carried locals symbolic (phi)"""
    return [p for p in paths(fi.node, phi=True) if p.ret is not RAISE]


def _all_values(p):
    out = [e.value for e in p.events if e.value is not None]
    out += list(p.phi_next.values())
    if p.ret is not None:
        out.append(p.ret)
    return out


def _parents(root):
    par = {}
    for n in ast.walk(root):
        for c in ast.iter_child_nodes(n):
            par[id(c)] = n
    return par


def _full_sum(e):
    """torch.sum(X) with no axis -> X (canonical form of X.sum())"""
    if isinstance(e, ast.Call) and attr_chain(e.func) == "torch.sum" and len(e.args) == 1 and not e.keywords:
        return e.args[0]
    return None


def _over_varargs(p, name, vararg):
    it = p.loopvars.get(name)
    return it is not None and vararg is not None and any(isinstance(n, ast.Name) and n.id == vararg for n in ast.walk(it))


def r1_call_discipline(repo: Repo, rep):
    R = rep.rule("R-C03-1", "every torch.autograd.grad differentiates a scalar obtained by .sum() of a value derived from the operator's input, w.r.t. the loop's variable, "
                 "with create_graph=True, taking result [0]", floor=6,
                 why="without create_graph second derivatives are cut; differentiating a non-scalar or another tensor gives a different quantity")
    m = repo.module(MOD)
    for name in OPERATORS:
        fi = m.functions.get(name)
        if fi is None:
            raise AnalysisError(f"operator {name} vanished")
        rep.saw(fi)
        vararg = fi.node.args.vararg.arg if fi.node.args.vararg else None
        occ = {}
        for p in _op_paths(fi):
            for v in _all_values(p):
                par = _parents(v)
                for c in _grad_calls(v):
                    key = (getattr(c, "lineno", 0), dump(c))
                    ent = occ.setdefault(key, [c, p, []])
                    pa = par.get(id(c))
                    if pa is not None:
                        ent[2].append(pa)
        for key, (c, p, uses) in occ.items():
            out = c.args[0] if c.args else kwarg(c, "outputs")
            inp = c.args[1] if len(c.args) > 1 else kwarg(c, "inputs")
            cg = kwarg(c, "create_graph")
            rep.check(R, out is not None and _full_sum(out) is not None, fi.site(c), fi.fq, "differentiated quantity is `<tensor>.sum()` (full reduction)", dump(out)[:80], dump(out)[:80])
            rep.check(R, cg is not None and dump(cg) == "True", fi.site(c), fi.fq, "create_graph=True", f"create_graph={dump(cg)}", f"create_graph={dump(cg)}")
            ok = isinstance(inp, ast.Name) and _over_varargs(p, inp.id, vararg)
            rep.check(R, ok, fi.site(c), fi.fq, f"differentiation w.r.t. the current element of *{vararg}", dump(inp), dump(inp))
            # how the result tuple of this evaluation is used, over all its occurrences (`x = grad(..)[0]`, `(x,) = grad(..)`)
            good = bool(uses) and all(isinstance(pa, ast.Subscript) and dump(pa.slice) == "0" for pa in uses)
            rep.check(R, good, fi.site(c), fi.fq, "the gradient w.r.t. that variable is taken ([0])", str(sorted({dump(pa)[-30:] for pa in uses}))[:80], "result index")


def _narrow(e: ast.AST):
    """x.narrow(-1, K, 1) / x[..., K:K+1] / x[:, K] / x[:, K:K+1] -> (base text, axis text, index expr, base node)"""
    if isinstance(e, ast.Call) and isinstance(e.func, ast.Attribute) and e.func.attr == "narrow" and len(e.args) == 3 and dump(e.args[2]) == "1":
        return dump(e.func.value), dump(e.args[0]), e.args[1], e.func.value
    if isinstance(e, ast.Subscript) and isinstance(e.slice, ast.Tuple) and len(e.slice.elts) >= 2 and not getattr(e, "_tuple_elt", False):
        elts = e.slice.elts
        last = elts[-1]
        # x[..., K] addresses the last axis; x[:, K] addresses axis 1 — the last one only for a single batch axis
        ax = "-1" if any(isinstance(x, ast.Constant) and x.value is Ellipsis for x in elts[:-1]) else str(len(elts) - 1)
        if isinstance(last, ast.Slice) and last.lower is not None and last.upper is not None and last.step is None:
            try:
                if to_rf(last.upper, _name_atom) - to_rf(last.lower, _name_atom) != RF.const(1):
                    return None
            except NotPoly:
                return None
            return dump(e.value), ax, last.lower, e.value
        if not isinstance(last, ast.Slice):
            return dump(e.value), ax, last, e.value
    return None


def _name_atom(n):
    if isinstance(n, ast.Name):
        return RF.atom(n.id)
    if isinstance(n, (ast.Attribute, ast.Subscript, ast.Call)):
        return RF.atom(dump(n).replace(" ", ""))
    return None


def _dim_of(v: str):
    return {f"{v}.shape[-1]", f"{v}.size(-1)", f"{v}.shape[1]", f"{v}.size(1)", f"{v}.size()[-1]"}


def _component_loop(p, i: str, v: str) -> bool:
    it = p.loopvars.get(i)
    return it is not None and isinstance(it, ast.Call) and attr_chain(it.func) == "range" and len(it.args) == 1 and dump(it.args[0]).replace(" ", "") in _dim_of(v)


def _split_sum(e, sym):
    """e == sym + T or T + sym -> T"""
    if isinstance(e, ast.BinOp) and isinstance(e.op, ast.Add):
        if isinstance(e.left, ast.Name) and e.left.id == sym:
            return e.right
        if isinstance(e.right, ast.Name) and e.right.id == sym:
            return e.left
    return None


def r2_pairing(repo: Repo, rep):
    R = rep.rule("R-C03-2", "component pairing: div differentiates output component offset+i and adds gradient component i, the offset advancing by the variable's "
                 "dimension; laplacian differentiates and accumulates the same component i for every variable, re-using a supplied gradient only for a single variable; "
                 "jac: rows over output components, columns over variables in call order",
                 floor=6, why="a wrong offset differentiates the wrong output component as soon as a third variable (or a vector variable) is passed")
    m = repo.module(MOD)
    # ---- div: recurrences of the loop-carried locals
    fi = m.functions.get("div")
    rep.saw(fi)
    va = fi.node.args.vararg.arg
    mo = fi.params[0]
    decided = False
    for p in _op_paths(fi):
        cand = [(n, _split_sum(nx, n)) for n, nx in p.phi_next.items()]
        cand = [(n, t) for n, t in cand if t is not None and _grad_calls(t)]
        if not cand:
            continue
        decided = True
        acc, term = cand[0]
        nr2 = _narrow(term)
        gcs = _grad_calls(term)
        g = gcs[0]
        wrt = g.args[1] if len(g.args) > 1 else kwarg(g, "inputs")
        v = dump(wrt)
        comp_i = dump(nr2[2]) if nr2 is not None else None
        ok_comp = nr2 is not None and nr2[1] == "-1" and comp_i is not None and _component_loop(p, comp_i, v)
        rep.check(R, ok_comp, fi.site(g), fi.fq, "gradient component i (last axis) is accumulated, i over range(variable dimension)", f"accumulated term {dump(term)[-80:]}", "gradient component")
        inner = (_full_sum(kwarg(g, 'outputs', 0)) if kwarg(g, 'outputs', 0) is not None else None)
        nr = _narrow(inner) if inner is not None else None
        if nr is None or nr[0] != mo or nr[1] != "-1":
            rep.violation(R, fi.site(g), fi.fq, "a single output component (last axis, for every number of batch axes) is differentiated per (variable, i)", dump(g.args[0])[:80] if g.args else "", "differentiated component")
            continue
        try:
            idx = to_rf(nr[2], _name_atom)
        except NotPoly as e:
            rep.undecided(R, fi.site(g), fi.fq, "affine output index", str(e))
            continue
        i = comp_i if ok_comp else None
        if i is None:
            continue
        offs = idx - RF.atom(i)
        atoms = offs.atoms()
        if i in atoms or len(atoms) != 1 or offs != RF.atom(list(atoms)[0]):
            rep.violation(R, fi.site(g), fi.fq, "differentiated output component = offset + i (last axis)", f"index {idx!r}", f"index {idx!r}")
            continue
        rep.ok(R, fi.site(g), fi.fq, "differentiated output component = offset + i (last axis)", f"index {idx!r}")
        off = list(atoms)[0]
        if off in p.phi_next:
            init = p.phi.get(off)
            rep.check(R, init is not None and dump(init) == "0", fi.site(g), fi.fq, "offset starts at 0", f"{off} = {dump(init)}", f"offset init {dump(init)}")
            try:
                def atom(n, v=v, i=i):
                    if dump(n).replace(" ", "") in _dim_of(v):
                        return RF.atom("D")
                    if isinstance(n, ast.Name) and n.id == i:
                        return RF.atom("D") - RF.const(1)  # after the component loop its variable holds the last index D - 1
                    return _name_atom(n)
                step = to_rf(p.phi_next[off], atom) - RF.atom(off)
                good = step == RF.atom("D")
                detail = f"{off} advances by {dump(p.phi_next[off])} (= {off} + {step!r} with D the variable's dimension)"
            except NotPoly as e:
                good, detail = False, f"step not affine: {e}"
            # the update must happen once per variable (outer loop), not once per component
            upd = [e for e in p.events if e.kind in ("aug", "eval") and isinstance(e.node, (ast.AugAssign, ast.Assign)) and dump(e.node.target if isinstance(e.node, ast.AugAssign) else e.node.targets[0]) == off and e.loop >= 1]
            depth = {e.loop for e in upd}
            good = good and depth == {1}
            if depth and depth != {1}:
                detail += f"; updated at loop depth {sorted(depth)}"
            order_ok = True
            if upd:
                first_g = [k for k, e in enumerate(p.events) if e.value is not None and _grad_calls(e.value)]
                order_ok = not first_g or p.events.index(upd[0]) > first_g[0]
                if not order_ok:
                    detail += "; advanced before the component loop"
            rep.check(R, good and order_ok, fi.site(upd[0].node) if upd else fi.site(), fi.fq, "offset += dimension of the variable, once per variable, after its components", detail, detail)
        elif off in p.loopvars:
            _div_precomputed_offsets(repo, rep, R, fi, p, off, va)
        else:
            rep.violation(R, fi.site(g), fi.fq, "the offset is a running sum of the dimensions of the preceding variables", f"offset `{off}` is neither loop-carried nor a loop variable", f"offset {off}")
    if not decided:
        rep.undecided(R, fi.site(), fi.fq, "an accumulator with recurrence acc + <gradient component>", "idiom not recognised")
    # ---- laplacian
    fi = m.functions.get("laplacian")
    rep.saw(fi)
    va = fi.node.args.vararg.arg
    mo = fi.params[0]
    gparam = "grad" if "grad" in fi.params else None
    decided = False
    for p in _op_paths(fi):
        cand = [(n, _split_sum(nx, n)) for n, nx in p.phi_next.items()]
        cand = [(n, t) for n, t in cand if t is not None and _grad_calls(t)]
        if not cand:
            continue
        decided = True
        acc, term = cand[0]
        nr2 = _narrow(term)
        outer = nr2[3] if nr2 is not None else None
        g2 = outer.value if isinstance(outer, ast.Subscript) and isinstance(outer.value, ast.Call) and attr_chain(outer.value.func) == "torch.autograd.grad" else None
        good, detail = False, f"term {dump(term)[-90:]}"
        if g2 is not None:
            v = dump(kwarg(g2, 'inputs', 1))
            inner = (_full_sum(kwarg(g2, 'outputs', 0)) if kwarg(g2, 'outputs', 0) is not None else None)
            nr1 = _narrow(inner) if inner is not None else None
            if nr1 is not None:
                i1, i2 = dump(nr1[2]), dump(nr2[2])
                good = i1 == i2 and _component_loop(p, i1, v) and nr1[1] == "-1" and nr2[1] == "-1"
                detail = f"differentiated component {i1} (axis {nr1[1]}), accumulated {i2} (axis {nr2[1]}); both must address the last axis"
                first = nr1[3]
                fresh = isinstance(first, ast.Subscript) and isinstance(first.value, ast.Call) and attr_chain(first.value.func) == "torch.autograd.grad"
                if fresh:
                    g1 = first.value
                    src = (_full_sum(kwarg(g1, 'outputs', 0)) if kwarg(g1, 'outputs', 0) is not None else None)
                    w1 = dump(kwarg(g1, 'inputs', 1))
                    ok1 = src is not None and dump(src) == mo and w1 == v
                    rep.check(R, ok1, fi.site(g1), fi.fq, "first derivative = grad(model_out.sum(), same variable)", f"{dump(g1)[:90]}", "first derivative")
                elif gparam is not None and isinstance(first, ast.Name) and first.id == gparam:
                    # the supplied gradient belongs to ONE variable: it may be re-used only when a single variable is passed
                    single = any((_single_var_guard(gd, va) == pol) for gd, pol, k in p.guards if _single_var_guard(gd, va) is not None)
                    rep.check(R, single, fi.site(g2), fi.fq, f"the supplied `{gparam}` is re-used only when exactly one variable is passed",
                              f"guards {[(dump(gd)[:40], pol) for gd, pol, k in p.guards if k == 'if']}", "supplied gradient re-used for several variables")
                else:
                    good = False
                    detail = f"first derivative is {dump(first)[:60]}"
        rep.check(R, good, fi.site(g2) if g2 is not None else fi.site(), fi.fq, "second derivative of gradient component i, component i of it accumulated", detail, detail)
    if not decided:
        rep.undecided(R, fi.site(), fi.fq, "an accumulator with recurrence acc + <second-derivative component>", "idiom not recognised")
    for l in ast.walk(fi.node):
        if isinstance(l, ast.For) and any(isinstance(n, ast.Name) and n.id == va for n in ast.walk(l.iter)):
            exits = [type(s_).__name__ for s_ in ast.walk(l) if isinstance(s_, (ast.Return, ast.Break))]
            rep.check(R, not exits, fi.site(l), fi.fq, "every variable of the call contributes (no return/break inside the variable loop)", str(exits), str(exits))
    # ---- jac
    fi = m.functions.get("jac")
    rep.saw(fi)
    va = fi.node.args.vararg.arg
    mo = fi.params[0]
    n_ret = 0
    for p in _op_paths(fi):
        r = p.ret
        if r is None:
            continue
        n_ret += 1
        good, detail = False, dump(r)[:120]
        if isinstance(r, ast.Call) and attr_chain(r.func) == "torch.stack" and dump(kwarg(r, "dim", 1)) == "1" and r.args and isinstance(r.args[0], ast.List) and len(r.args[0].elts) == 1:
            row = r.args[0].elts[0]
            rows_over = getattr(row, "_iter_of", None)
            cat_ok = isinstance(row, ast.Call) and (attr_chain(row.func) == "torch.column_stack" or (attr_chain(row.func) == "torch.cat" and dump(kwarg(row, "dim", 1)) in ("1", "-1"))) \
                and row.args and isinstance(row.args[0], ast.List) and len(row.args[0].elts) == 1
            if cat_ok and rows_over and len(rows_over) == 1:
                i = rows_over[0]
                it = p.loopvars.get(i)
                rows_ok = it is not None and dump(it).replace(" ", "") in (f"range({mo}.shape[1])", f"range({mo}.shape[-1])", f"range({mo}.size(1))", f"range({mo}.size(-1))")
                col = row.args[0].elts[0]
                cols_over = getattr(col, "_iter_of", None)
                cols_ok = bool(cols_over) and len(cols_over) == 1 and _over_varargs(p, cols_over[0], va)
                g = col.value if isinstance(col, ast.Subscript) and isinstance(col.value, ast.Call) and attr_chain(col.value.func) == "torch.autograd.grad" else None
                comp_ok = False
                if g is not None:
                    inner = (_full_sum(kwarg(g, 'outputs', 0)) if kwarg(g, 'outputs', 0) is not None else None)
                    nr = _narrow(inner) if inner is not None else None
                    wrt = dump(kwarg(g, 'inputs', 1))
                    comp_ok = nr is not None and nr[0] == mo and dump(nr[2]) == i and cols_ok and wrt == cols_over[0]
                good = rows_ok and cols_ok and comp_ok
                detail = f"rows over {i} in {dump(it)}, columns over {cols_over}, component ok: {comp_ok}"
        rep.check(R, good, fi.site(p.ret_node), fi.fq, "J[:, i, :] = cat_v d(u_i)/dv (variables in call order), rows stacked on axis 1", detail, detail)
    if n_ret == 0:
        rep.undecided(R, fi.site(), fi.fq, "a returning path", "none")


def _single_var_guard(g, va):
    """polarity under which `g` says `len(*va) == 1` (None: not such a guard)"""
    t = dump(g).replace(" ", "")
    L = f"len({va})"
    table = {f"{L}>1": False, f"1<{L}": False, f"{L}>=2": False, f"2<={L}": False, f"{L}==1": True, f"1=={L}": True, f"{L}<2": True, f"2>{L}": True, f"{L}<=1": True, f"1>={L}": True}
    return table.get(t)


class _NoList(Exception):
    pass


def _sym_list(e: ast.AST, va: str, env):
    """evaluate a small list expression over the variables [v0, v1, v2] with symbolic dimensions d0, d1, d2"""
    D = [RF.atom(f"d{j}") for j in range(3)]
    if isinstance(e, ast.Name) and e.id == va:
        return [("var", j) for j in range(3)]
    if isinstance(e, ast.Name) and e.id in env:
        return _sym_list(env[e.id], va, env)
    if isinstance(e, (ast.List, ast.Tuple)):
        return [_sym_scalar(x, va, env, None) for x in e.elts]
    if isinstance(e, ast.BinOp) and isinstance(e.op, ast.Add):
        a, b = _sym_list(e.left, va, env), _sym_list(e.right, va, env)
        return a + b
    if isinstance(e, ast.Subscript) and isinstance(e.slice, ast.Slice):
        base = _sym_list(e.value, va, env)
        lo = e.slice.lower.value if isinstance(e.slice.lower, ast.Constant) else (None if e.slice.lower is None else _bad())
        hi = None
        if e.slice.upper is not None:
            u = e.slice.upper
            hi = u.value if isinstance(u, ast.Constant) else (-u.operand.value if isinstance(u, ast.UnaryOp) and isinstance(u.operand, ast.Constant) else _bad())
        return base[lo:hi]
    if isinstance(e, ast.ListComp) and len(e.generators) == 1 and not e.generators[0].ifs and isinstance(e.generators[0].target, ast.Name):
        g = e.generators[0]
        items = _sym_list(g.iter, va, env)
        return [_sym_scalar(e.elt, va, env, (g.target.id, it)) for it in items]
    if isinstance(e, ast.Call) and attr_chain(e.func) in ("list", "tuple") and len(e.args) == 1:
        return _sym_list(e.args[0], va, env)
    if isinstance(e, ast.Call) and attr_chain(e.func) in ("itertools.accumulate", "accumulate", "np.cumsum", "numpy.cumsum") and len(e.args) == 1:
        items = _sym_list(e.args[0], va, env)
        out, acc = [], RF.const(0)
        for it in items:
            acc = acc + it
            out.append(acc)
        return out
    raise _NoList(dump(e)[:60])


def _bad():
    raise _NoList("slice bound")


def _sym_scalar(e, va, env, binding):
    if isinstance(e, ast.Constant) and isinstance(e.value, int):
        return RF.const(e.value)
    if binding is not None:
        name, item = binding
        t = dump(e).replace(" ", "")
        if t in (f"{name}.shape[-1]", f"{name}.size(-1)", f"{name}.shape[1]") and isinstance(item, tuple) and item[0] == "var":
            return RF.atom(f"d{item[1]}")
        if t == name and not isinstance(item, tuple):
            return item
    if isinstance(e, ast.BinOp) and isinstance(e.op, ast.Add):
        return _sym_scalar(e.left, va, env, binding) + _sym_scalar(e.right, va, env, binding)
    raise _NoList(dump(e)[:60])


def _div_precomputed_offsets(repo, rep, R, fi, p, off_name, va):
    """for vari, off in zip(variables, OFFSETS): OFFSETS must be the exclusive cumulative sums of the dimensions"""
    loops = [l for l in ast.walk(fi.node) if isinstance(l, ast.For) and isinstance(l.target, (ast.Tuple, ast.List)) and any(isinstance(t, ast.Name) and t.id == off_name for t in l.target.elts)
             and isinstance(l.iter, ast.Call) and attr_chain(l.iter.func) == "zip"]
    if len(loops) != 1:
        rep.undecided(R, fi.site(), fi.fq, f"`{off_name}` is bound by one zip(variables, offsets) loop", f"{len(loops)} such loops")
        return
    loop = loops[0]
    names = [dump(t) for t in loop.target.elts]
    args = [dump(a) for a in loop.iter.args]
    if len(names) != 2 or len(args) != 2 or va not in args:
        rep.undecided(R, fi.site(loop), fi.fq, "zip(variables, offsets)", dump(loop.iter)[:80])
        return
    vi = args.index(va)
    off_expr = loop.iter.args[1 - vi]
    env = {}
    for st in fi.node.body:
        if st is loop:
            break
        if isinstance(st, ast.Assign) and len(st.targets) == 1 and isinstance(st.targets[0], ast.Name):
            env[st.targets[0].id] = st.value
    try:
        offs = _sym_list(off_expr, va, env)
    except _NoList as e:
        rep.undecided(R, fi.site(loop), fi.fq, "offset list evaluable", str(e))
        return
    want = [RF.const(0), RF.atom("d0"), RF.atom("d0") + RF.atom("d1")]
    got = offs[:3]
    ok = len(got) == 3 and all(isinstance(a, RF) and a == b for a, b in zip(got, want))
    rep.check(R, ok, fi.site(loop), fi.fq, "offsets of three variables of dimensions d0, d1, d2 are [0, d0, d0 + d1] (exclusive cumulative sums)",
              f"offsets = {got}", f"offsets = {got}")
    rep.ok(R, fi.site(loop), fi.fq, "offsets precomputed (no running update needed)", "zip idiom")


ROT = {0: ((2, 1), (1, 2)), 1: ((0, 2), (2, 0)), 2: ((1, 0), (0, 1))}


def r3_tables(repo: Repo, rep):
    R = rep.rule("R-C03-3", "rot[c] = J[a,b] - J[b,a] for cyclic (c,a,b); sym_grad = (J + J^T)/2 on axes (1,2); convective = J·v; normal_derivative = sum over the "
                 "last axis of grad*n; matrix_div applies div to every row", floor=7,
                 why="each of these is a fixed index table over the Jacobian")
    m = repo.module(MOD)
    fi = m.functions.get("rot")
    rep.saw(fi)
    for p in paths(fi.node):
        if p.ret is RAISE:
            continue
        import re as _re
        stores = {}
        for e in p.events:
            if e.kind == "store" and e.raw is not None:
                mm = _re.search(r"\[(:,\d)\]$", dump(e.target).replace(" ", "") if e.target is not None else dump(e.raw).replace(" ", ""))
                if mm:
                    stores[mm.group(1)] = e.value
        for c, ((a1, b1), (a2, b2)) in ROT.items():
            v = stores.get(f":,{c}")
            good = isinstance(v, ast.BinOp) and isinstance(v.op, ast.Sub)
            if good:
                l, r = dump(v.left).replace(" ", ""), dump(v.right).replace(" ", "")
                good = l.endswith(f"[:,{a1},{b1}]") and r.endswith(f"[:,{a2},{b2}]") and "jac(" in l
            rep.check(R, good, fi.site(), fi.fq, f"rot[:, {c}] = J[:, {a1}, {b1}] - J[:, {a2}, {b2}]", dump(v)[-70:] if v is not None else "missing", f"rot{c}: " + (dump(v)[-60:] if v is not None else "missing"))
    fi = m.functions.get("sym_grad")
    rep.saw(fi)

    def is_jac(n, fi):
        return isinstance(n, ast.Call) and attr_chain(n.func) == "jac" and dump(n).replace(" ", "") == f"jac({fi.params[0]},*{fi.node.args.vararg.arg})"

    def axis_of(call, pos):
        d = kwarg(call, "dim", pos)
        if d is None:
            d = kwarg(call, "axis", pos)
        try:
            return ast.literal_eval(d) if d is not None else None
        except Exception:
            return None

    def transposed(n, fi):
        """the operand of a swap of the two matrix axes of a (batch, i, j) tensor, or None"""
        if isinstance(n, ast.Attribute) and n.attr == "mT":
            return n.value
        if not isinstance(n, ast.Call):
            return None
        ch = attr_chain(n.func) or ""
        name = ch.split(".")[-1] if ch else (n.func.attr if isinstance(n.func, ast.Attribute) else "")
        is_mod = ch.startswith("torch.")
        subj = (n.args[0] if n.args else None) if is_mod else (n.func.value if isinstance(n.func, ast.Attribute) else None)
        rest = n.args[1:] if is_mod else n.args
        try:
            vals = [ast.literal_eval(a) for a in rest] + [ast.literal_eval(k.value) for k in n.keywords]
        except Exception:
            return None
        if name in ("transpose", "swapaxes", "swapdims") and sorted(v % 3 for v in vals if isinstance(v, int)) == [1, 2] and len(vals) == 2:
            return subj
        if name == "permute" and (vals == [0, 2, 1] or vals == [(0, 2, 1)] or vals == [[0, 2, 1]]):
            return subj
        return None

    for p in paths(fi.node):
        if p.ret is RAISE:
            continue
        def atom(n, fi=fi):
            if is_jac(n, fi):
                return RF.atom("J")
            inner = transposed(n, fi)
            if inner is not None and is_jac(inner, fi):
                return RF.atom("Jt")
            return None
        t = dump(p.ret).replace(" ", "")
        try:
            got = to_rf(p.ret, atom)
            half = RF.const(1) / RF.const(2)
            ok = got == half * RF.atom("J") + half * RF.atom("Jt")
        except NotPoly:
            ok = False
        rep.check(R, ok, fi.site(), fi.fq, "0.5 * (J + transpose(J, 1, 2))", t[:120], t[:120])
    fi = m.functions.get("convective")
    rep.saw(fi)
    for p in paths(fi.node):
        if p.ret is RAISE:
            continue
        t = dump(p.ret).replace(" ", "")
        r = p.ret
        # outer: removal of the trailing unit axis (squeeze(2) / squeeze(-1) / [..., 0] / [:, :, 0])
        inner = None
        if isinstance(r, ast.Call) and (attr_chain(r.func) or "").split(".")[-1] == "squeeze" or (isinstance(r, ast.Call) and isinstance(r.func, ast.Attribute) and r.func.attr == "squeeze"):
            is_mod = (attr_chain(r.func) or "").startswith("torch.")
            if axis_of(r, 1 if is_mod else 0) in (2, -1):
                inner = r.args[0] if is_mod else r.func.value
        elif isinstance(r, ast.Subscript) and dump(r.slice).replace(" ", "") in ("(...,0)", "(slice(None,None,None),slice(None,None,None),0)", "(:,:,0)"):
            inner = r.value
        ok = False
        if isinstance(inner, ast.Call) and (attr_chain(inner.func) or "") in ("torch.bmm", "torch.matmul") and len(inner.args) == 2:
            a, b = inner.args
            col = None
            if isinstance(b, ast.Call) and ((attr_chain(b.func) or "").split(".")[-1] == "unsqueeze" or (isinstance(b.func, ast.Attribute) and b.func.attr == "unsqueeze")):
                is_mod = (attr_chain(b.func) or "").startswith("torch.")
                if axis_of(b, 1 if is_mod else 0) in (2, -1):
                    col = b.args[0] if is_mod else b.func.value
            ok = is_jac(a, fi) and col is not None and dump(col) == fi.params[1]
        rep.check(R, ok, fi.site(), fi.fq, "bmm(J, v[..., None])[..., 0]", t[:120], t[:120])
    fi = m.functions.get("normal_derivative")
    rep.saw(fi)
    for p in paths(fi.node):
        if p.ret is RAISE:
            continue
        r = p.ret
        ok = False
        if isinstance(r, ast.Call) and (attr_chain(r.func) == "torch.sum" or (isinstance(r.func, ast.Attribute) and r.func.attr == "sum")):
            base = r.args[0] if attr_chain(r.func) == "torch.sum" else r.func.value
            d = kwarg(r, "dim", 1 if attr_chain(r.func) == "torch.sum" else 0)
            kd = kwarg(r, "keepdim")
            g = f"grad({fi.params[0]}, *{fi.node.args.vararg.arg})"
            prod = dump(base) in (f"{g} * {fi.params[1]}", f"{fi.params[1]} * {g}")
            ok = prod and d is not None and dump(d) == "-1" and kd is not None and dump(kd) == "True"
        rep.check(R, ok, fi.site(), fi.fq, "sum(grad * normals, dim=-1, keepdim=True)", dump(r)[:120], dump(r)[:120])
    fi = m.functions.get("matrix_div")
    rep.saw(fi)
    mo = fi.params[0]
    va = fi.node.args.vararg.arg
    n_ok = 0
    for p in _op_paths(fi):
        stores = [e for e in p.events if e.kind == "store" and e.raw is not None]
        ok, detail = False, "no row store"
        for e in stores:
            nr = _narrow(e.raw) if isinstance(e.raw, ast.Subscript) else None
            col = dump(nr[2]) if nr is not None else None
            it = p.loopvars.get(col) if col else None
            rows_ok = it is not None and dump(it).replace(" ", "") in (f"range({mo}.shape[1])", f"range({mo}.size(1))")
            v = e.value
            call_ok = isinstance(v, ast.Call) and attr_chain(v.func) == "div" and len(v.args) == 2 and isinstance(v.args[1], ast.Starred) and dump(v.args[1].value) == va
            row_ok = False
            if call_ok:
                a0 = dump(v.args[0]).replace(" ", "")
                row_ok = a0 in (f"{mo}.narrow(1,{col},1).squeeze(1)", f"{mo}[:,{col}]", f"{mo}[:,{col},:]", f"{mo}.select(1,{col})", f"{mo}.narrow(1,{col},1).squeeze(dim=1)")
            ok = rows_ok and call_ok and row_ok
            detail = f"{dump(e.raw)} = {dump(v)[:80]}"
        n_ok += 1
        rep.check(R, ok, fi.site(), fi.fq, "out[:, i] = div(row i of the matrix field)", detail, "matrix_div")
    if n_ok == 0:
        rep.undecided(R, fi.site(), fi.fq, "a returning path", "none")
    fi = m.functions.get("grad")
    rep.saw(fi)
    for p in paths(fi.node):
        if p.ret is RAISE:
            continue
        t = dump(p.ret).replace(" ", "")
        ok = t.startswith(("torch.column_stack([", "torch.cat([")) and "create_graph=True" in t
        rep.check(R, ok, fi.site(), fi.fq, "gradients of all variables concatenated column-wise in call order", t[:100], t[:100])


def _inside_loop_over(fn, node, va) -> bool:
    for l in ast.walk(fn):
        if isinstance(l, ast.For) and any(isinstance(n, ast.Name) and n.id == va for n in ast.walk(l.iter)):
            if any(n is node for n in ast.walk(l)):
                return True
    return False


def r11_callers_hand_over_the_differentiated_tensors(repo: Repo, rep):
    R = rep.rule("R-C03-11", "helpers that evaluate a model and then a user function on {**model_out.coordinates, **inputs} (plots, animations, evaluation) hand over the SAME coordinate tensors "
                 "the model was evaluated on: one mapping `d`, the model called on Points.from_coordinates(d), and `**d` in the merged dictionary", floor=3,
                 why="Points.coordinates builds new views on every access: a second access gives tensors that are not part of the model output's graph, and every derivative in the plot function raises `not used in the graph`")
    n = 0
    for fi in repo.all_functions():
        if ".utils." not in fi.module.name:
            continue
        calls = {}  # name -> argument of the call that produced it
        from ..util import deref, single_defs
        tmp = {k: v for k, v in single_defs(fi.node).items() if isinstance(v, ast.Call) and dump(v.func) == "Points.from_coordinates"}  # the model input bound to a temporary first
        for a in ast.walk(fi.node):
            if isinstance(a, ast.Assign) and len(a.targets) == 1 and isinstance(a.targets[0], ast.Name) and isinstance(a.value, ast.Call) and len(a.value.args) == 1 and not a.value.keywords:
                calls[a.targets[0].id] = a.value.args[0]
        for d in ast.walk(fi.node):
            if not (isinstance(d, ast.Dict) and sum(k is None for k in d.keys) >= 2):
                continue
            stars = [v for k, v in zip(d.keys, d.values) if k is None]
            outs = [v for v in stars if isinstance(v, ast.Attribute) and v.attr == "coordinates" and isinstance(v.value, ast.Name) and v.value.id in calls]
            if len(outs) != 1:
                continue
            arg = deref(calls[outs[0].value.id], tmp)
            rest = [v for v in stars if v is not outs[0]]
            n += 1
            rep.saw(fi)
            fed = arg.args[0] if isinstance(arg, ast.Call) and dump(arg.func) in ("Points.from_coordinates",) and len(arg.args) == 1 else None
            ok = fed is not None and any(dump(v) == dump(fed) for v in rest) and isinstance(fed, ast.Name)
            fresh = [dump(v) for v in rest if isinstance(v, ast.Attribute) and v.attr == "coordinates"]
            rep.check(R, ok and not fresh, fi.site(d), fi.fq, "the merged dictionary carries the mapping the model input was built from", f"model evaluated on `{dump(arg)[:60]}`, dictionary merges {[dump(v)[:40] for v in rest]}",
                      f"model on {dump(arg)[:50]}; merged {[dump(v)[:40] for v in rest]}")
    if n == 0:
        rep.undecided(R, "src/torchphysics/utils", "-", "helpers that merge model output and inputs for a user function", "none found")


def r10_gradient_join(repo: Repo, rep):
    R = rep.rule("R-C03-10", "grad joins the per-variable gradients so that row r of the result holds row r's derivatives, the variables side by side on the LAST axis - evaluated for two "
                 "variables given as flat (batch,) tensors, as (batch, d) tensors and as (functions, batch, d) tensors", floor=3,
                 why="cat / hstack of 1-D gradients appends the t-derivatives BELOW the x-derivatives; column_stack of 3-D gradients concatenates along axis 1, the point axis of an operator batch: "
                     "entry r of the result then belongs to another row and another variable")
    from ..absdom.listeval import Evaluator, Model, NotEval, Opaque, UNKNOWN
    fi = repo.module(MOD).functions.get("grad")
    if fi is None:
        raise AnalysisError("grad vanished")
    rep.saw(fi)

    class T(Model):
        """a gradient known by its rank and by the variables whose derivatives sit side by side on its last axis (None: the layout is lost)"""

        def __init__(self, rank, cols, note=""):
            self.rank, self.cols, self.note = rank, cols, note

        def le_getattr(self, name):
            if name == "ndim":
                return self.rank
            if name == "shape":
                return tuple(f"s{k}" for k in range(self.rank))
            raise NotEval(name)

        def le_call(self, method, args, kws):
            if method in ("dim", "ndimension"):
                return self.rank
            if method in ("sum", "mean"):
                return Opaque("scalar")
            if method == "unsqueeze" and list(args) in ([-1], [self.rank]):
                return T(self.rank + 1, self.cols)
            if method in ("reshape", "view") and self.rank <= 1 and [tuple(a) if isinstance(a, (list, tuple)) else a for a in args] in ([-1, 1], [(-1, 1)]):
                return T(2, self.cols)
            raise NotEval(method)

        def le_subscript(self, idx):
            idx = idx if isinstance(idx, tuple) else (idx,)
            if self.rank == 1 and len(idx) == 2 and idx[0] == slice(None) and idx[1] is None:
                return T(2, self.cols)
            if idx[0] is Ellipsis and idx[-1] is None:
                return T(self.rank + 1, self.cols)
            raise NotEval("subscript")

        def le_len(self):
            return 7

    def join(name, parts, dim):
        if not (isinstance(parts, (list, tuple)) and parts and all(isinstance(p, T) for p in parts)):
            return None
        if name == "column_stack":
            parts = [T(2, p.cols) if p.rank <= 1 else p for p in parts]  # documented: 0-D / 1-D tensors become (numel, 1) columns
            dim = 1
        elif name == "hstack":
            dim = 0 if all(p.rank <= 1 for p in parts) else 1
        elif name == "stack":
            if len({p.rank for p in parts}) != 1:
                return None
            r = parts[0].rank
            ax = dim if dim >= 0 else dim + r + 1
            if r == 1 and ax == 1:
                return T(2, [c for p in parts for c in p.cols])
            return T(r + 1, None, f"stack along axis {ax} of rank-{r} gradients")
        if len({p.rank for p in parts}) != 1:
            return None
        r = parts[0].rank
        ax = dim if dim >= 0 else dim + r
        if r >= 2 and ax == r - 1 and all(p.cols is not None for p in parts):
            return T(r, [c for p in parts for c in p.cols])
        return T(r, None, f"joined along axis {ax} of rank-{r} gradients")
    cur = {}

    def on_call(e, name, args, kws, ev, f):
        if name.endswith("autograd.grad") and args is not None and len(args) >= 2 and isinstance(args[1], T):
            return [T(args[1].rank, list(args[1].cols))]
        short = name.split(".")[-1]
        if name in ("torch.sum", "torch.mean") and args and isinstance(args[0], T):
            return Opaque("scalar")
        if name.startswith("torch.") and short in ("column_stack", "hstack", "cat", "concat", "concatenate", "stack") and args:
            dim = kws.get("dim", args[1] if len(args) > 1 else 0)
            if not isinstance(dim, int):
                return None
            return join("cat" if short in ("concat", "concatenate") else short, args[0], dim)
        if name in ("torch.atleast_2d",) and args and isinstance(args[0], T):
            return args[0] if args[0].rank >= 2 else None  # (1, n): a row, not a column
        return None
    va = fi.node.args.vararg.arg if fi.node.args.vararg else None
    if va is None:
        rep.undecided(R, fi.site(), fi.fq, "grad(model_out, *variables)", "no variadic parameter")
        return
    for rank, label in ((1, "flat (batch,) variables"), (2, "(batch, d) variables"), (3, "(functions, batch, d) variables")):
        x, t = T(rank, ["x"]), T(rank, ["t"])
        out = T(max(rank, 2), ["u"])
        try:
            fr = Evaluator(None, on_call).run(fi.node.body, {fi.params[0]: out, va: (x, t)})
            got = fr.ret
        except NotEval as err:
            got = UNKNOWN
        if not isinstance(got, T):
            rep.undecided(R, fi.site(), fi.fq, f"{label}: join evaluable", repr(got)[:60])
            continue
        want_rank = max(rank, 2)
        rep.check(R, got.cols == ["x", "t"] and got.rank == want_rank, fi.site(), fi.fq, f"{label}: the result has the derivatives w.r.t. x and t side by side on the last of {want_rank} axes",
                  f"rank {got.rank}, last axis {got.cols}" + (f" ({got.note})" if got.note else ""), f"{label}: {got.cols} {got.note}")


def r4_short_circuit(repo: Repo, rep):
    R = rep.rule("R-C03-4", "zero short-circuits: when the graph ends (grad_fn is None) only the affected contribution is zero: laplacian skips that variable, "
                 "partial returns zeros shaped like the variable", floor=2,
                 why="returning early drops the contributions of the remaining variables; the result then depends on the variable order")
    m = repo.module(MOD)
    fi = m.functions.get("laplacian")
    rep.saw(fi)
    va = fi.node.args.vararg.arg
    hit = 0
    for p in _op_paths(fi):
        if not any(pol and "grad_fn is None" in dump(g) for g, pol, k in p.guards):
            continue
        hit += 1
        early = p.ret_node is not None and _inside_loop_over(fi.node, p.ret_node, va)
        contributes = bool(p.phi_next) and any(_grad_calls(nx) and _split_sum(nx, n) is not None for n, nx in p.phi_next.items())
        rep.check(R, not early and not contributes, fi.site(p.ret_node) if p.ret_node is not None else fi.site(), fi.fq, "a variable whose graph ended is skipped; the loop goes on with the next variable",
                  "returns from inside the variable loop" if early else "still differentiates", "early return" if early else "no skip")
    if hit == 0:
        rep.violation(R, fi.site(), fi.fq, "a vanished graph (variable the model is linear in) yields zero instead of an error", "no grad_fn test", "no short-circuit")
    # ... and every path that does differentiate a first derivative again has passed that test (also when the gradient was supplied by the caller)
    for p in _op_paths(fi):
        contributes = bool(p.phi_next) and any(_grad_calls(nx) and _split_sum(nx, n) is not None for n, nx in p.phi_next.items())
        if not contributes:
            continue
        tested = any((not pol) and "grad_fn is None" in dump(g) for g, pol, k in p.guards)
        rep.check(R, tested, fi.site(), fi.fq, "the second derivative is taken only after `grad.grad_fn is None` was found false on that path",
                  f"guards {[(dump(g)[:40], pol) for g, pol, k in p.guards if k == 'if']}", "second derivative without the graph test")
    fi = m.functions.get("partial")
    rep.saw(fi)
    va = fi.node.args.vararg.arg
    hit = 0
    for p in _op_paths(fi):
        if not any(pol and "grad_fn is None" in dump(g) for g, pol, k in p.guards):
            continue
        hit += 1
        r = p.ret
        ok = isinstance(r, ast.Call) and attr_chain(r.func) == "torch.zeros_like" and r.args and isinstance(r.args[0], ast.Name) and _over_varargs(p, r.args[0].id, va)
        rep.check(R, ok, fi.site(p.ret_node) if p.ret_node is not None else fi.site(), fi.fq, "returns zeros shaped like the current variable (all further derivatives of 0 are 0)", dump(r)[:80], dump(r)[:80])
    if hit == 0:
        rep.violation(R, fi.site(), fi.fq, "a vanished graph yields zero instead of an error", "no grad_fn test", "no short-circuit")
    # the test is made on the quantity that is ABOUT to be differentiated: a derivative just taken whose graph ended is a constant, not zero
    for loop in [n for n in ast.walk(fi.node) if isinstance(n, ast.For)]:
        fresh = set()
        for st in loop.body:
            if isinstance(st, ast.If) and "grad_fn is None" in dump(st.test):
                tested = {x.value.id for x in ast.walk(st.test) if isinstance(x, ast.Attribute) and x.attr == "grad_fn" and isinstance(x.value, ast.Name)}
                zero = any(isinstance(r, ast.Return) and r.value is not None and "zeros" in dump(r.value) for b in st.body for r in ast.walk(b))
                if zero:
                    rep.check(R, not (tested & fresh), fi.site(st), fi.fq, "zero is returned when the quantity still to be differentiated has no graph (tested before this iteration's derivative is taken)",
                              f"`{dump(st.test)}` tests the derivative just computed in this iteration", "graph test after the derivative")
            for n in ast.walk(st):
                if isinstance(n, ast.Assign) and any(isinstance(c, ast.Call) and (attr_chain(c.func) or "").endswith("autograd.grad") for c in ast.walk(n.value)):
                    fresh |= {t.id for t in n.targets if isinstance(t, ast.Name)}


VALUE_TESTS = ("any", "all", "item", "sum", "max", "min", "mean", "norm", "allclose", "equal", "isclose", "count_nonzero", "nonzero", "is_nonzero",
               "tolist", "prod", "abs", "isnan", "isfinite", "numel_nonzero", "amax", "amin", "std", "var")


def r6_value_free_control(repo: Repo, rep):
    R = rep.rule("R-C03-6", "the control flow of the operators depends on the graph structure, shapes and argument lists only - never on tensor values", floor=8,
                 why="a branch taken when a derivative happens to be zero on the whole batch makes a row's result depend on the other rows of the batch "
                     "(and returns zero for higher derivatives that do not vanish)")
    m = repo.module(MOD)
    for name, fi in sorted(m.functions.items()):
        tests = []
        for n in ast.walk(fi.node):
            if isinstance(n, (ast.If, ast.While, ast.IfExp, ast.Assert)):
                tests.append(n.test)
            elif isinstance(n, ast.comprehension):
                tests += n.ifs
        rep.saw(fi)
        bad = value_tests_in(tests)
        rep.check(R, not bad, fi.site(), fi.fq, "conditions test grad_fn / shapes / argument lists only", f"value-dependent tests: {sorted(set(bad))[:3]}", f"value tests {sorted(set(bad))[:3]}")


def control_tests(fn_node):
    tests = []
    for n in ast.walk(fn_node):
        if isinstance(n, (ast.If, ast.While, ast.IfExp, ast.Assert)):
            tests.append(n.test)
        elif isinstance(n, ast.comprehension):
            tests += n.ifs
    return tests


def value_tests_in(tests):
    """calls inside control-flow conditions that read tensor VALUES (any / all / item / max / ..): shapes, graph structure and argument lists are not values"""
    if True:
        bad = []
        for t in tests:
            for c in ast.walk(t):
                if not isinstance(c, ast.Call):
                    continue
                ch = attr_chain(c.func) or ""
                tail = ch.split(".")[-1] if ch else (c.func.attr if isinstance(c.func, ast.Attribute) else "")
                tensor_fn = ch.startswith("torch.") and tail in VALUE_TESTS
                tensor_meth = isinstance(c.func, ast.Attribute) and not ch.startswith("torch.") and tail in VALUE_TESTS and not c.args
                builtin = ch in ("any", "all", "bool", "float", "int", "sum", "max", "min") and len(c.args) == 1 \
                    and not isinstance(c.args[0], (ast.GeneratorExp, ast.ListComp, ast.List, ast.Tuple, ast.Constant)) \
                    and not (isinstance(c.args[0], ast.Call) and attr_chain(c.args[0].func) in ("len",)) \
                    and not any(isinstance(x, ast.Attribute) and x.attr == "shape" for x in ast.walk(c.args[0]))
                if tensor_fn or tensor_meth or builtin:
                    bad.append(dump(c)[:60])
        return bad


def r7_no_memo(repo: Repo, rep):
    R = rep.rule("R-C03-7", "the operators are recomputed on every call: no memoising decorator, no module-level table written by an operator", floor=8,
                 why="tensors hash by identity: a cached derivative is returned for a tensor that was modified in place (or for another graph built on the same object)")
    m = repo.module(MOD)
    containers = set()
    for n in m.tree.body:
        if isinstance(n, (ast.Assign, ast.AnnAssign)):
            v = n.value
            if isinstance(v, (ast.Dict, ast.List, ast.Set)) or (isinstance(v, ast.Call) and attr_chain(v.func) in ("dict", "list", "set", "OrderedDict", "collections.OrderedDict", "defaultdict", "collections.defaultdict", "weakref.WeakKeyDictionary")):
                for t in (n.targets if isinstance(n, ast.Assign) else [n.target]):
                    if isinstance(t, ast.Name):
                        containers.add(t.id)
    for name, fi in sorted(m.functions.items()):
        rep.saw(fi)
        memo = [d for d in fi.decorators if any(k in d for k in ("cache", "memo", "lru"))]
        writes = sorted({dump(n)[:50] for n in ast.walk(fi.node) if (isinstance(n, ast.Subscript) and isinstance(n.ctx, ast.Store) and isinstance(n.value, ast.Name) and n.value.id in containers)
                         or (isinstance(n, ast.Call) and isinstance(n.func, ast.Attribute) and isinstance(n.func.value, ast.Name) and n.func.value.id in containers
                             and n.func.attr in ("append", "update", "setdefault", "add", "insert", "extend"))
                         or isinstance(n, ast.Global)})
        rep.check(R, not memo and not writes, fi.site(), fi.fq, "no memoisation of derivatives", f"decorators {memo}; writes {writes[:2]}", f"memoised: {memo or writes[:2]}")


def r5_accumulators(repo: Repo, rep):
    R = rep.rule("R-C03-5", "accumulators that are filled in place inherit dtype and device from an input (or accumulation is out of place)", floor=3,
                 why="a float32 torch.zeros buffer filled in place silently down-casts float64 derivatives; a cpu buffer fails for cuda inputs")
    m = repo.module(MOD)
    for name in OPERATORS:
        fi = m.functions.get(name)
        allocs = [n for n in ast.walk(fi.node) if isinstance(n, ast.Assign) and isinstance(n.value, ast.Call) and attr_chain(n.value.func) in ("torch.zeros", "torch.empty", "torch.ones")]
        for a in allocs:
            rep.saw(fi)
            var = dump(a.targets[0])
            inplace = False
            for n in ast.walk(fi.node):
                if isinstance(n, ast.AugAssign) and dump(n.target) == var:
                    inplace = True
                if isinstance(n, ast.Assign) and isinstance(n.targets[0], ast.Subscript) and dump(n.targets[0].value) == var:
                    inplace = True
            has_dtype = kwarg(a.value, "dtype") is not None and ".dtype" in dump(kwarg(a.value, "dtype"))
            has_dev = kwarg(a.value, "device") is not None and ".device" in dump(kwarg(a.value, "device"))
            if inplace:
                rep.check(R, has_dtype and has_dev, fi.site(a), fi.fq, f"in-place accumulator `{var}` created with dtype=<input>.dtype and device=<input>.device",
                          f"{dump(a.value)[:110]}", f"{var}: dtype={has_dtype} device={has_dev}")
            else:
                rep.check(R, has_dev, fi.site(a), fi.fq, f"out-of-place accumulator `{var}` on the input's device (dtype follows by promotion)", dump(a.value)[:110], f"{var}: device={has_dev}")


# ------------------------------------------------------------------ R-C03-8
ANY_RANK = ("laplacian", "grad", "normal_derivative", "div", "partial")  # confirmed on the pristine tree: components addressed from the end only


def _axis1_evidence(fn_node: ast.AST):
    """constructs that address tensor axis 1 counted from the front (valid only for 2-D batches)"""
    out = []
    for n in ast.walk(fn_node):
        if isinstance(n, ast.Subscript) and isinstance(n.slice, ast.Tuple) and len(n.slice.elts) >= 2:
            el = n.slice.elts
            full = isinstance(el[0], ast.Slice) and el[0].lower is None and el[0].upper is None and el[0].step is None
            if full and not any(isinstance(x, ast.Constant) and x.value is Ellipsis for x in el):
                out.append(dump(n)[:40])
        if isinstance(n, ast.Call):
            nm = n.func.attr if isinstance(n.func, ast.Attribute) else ""
            for k in n.keywords:
                if k.arg in ("dim", "axis", "dim1", "dim2", "dim0") and isinstance(k.value, ast.Constant) and k.value.value in (1, 2):
                    out.append(dump(n)[:40])
            if nm in ("narrow", "squeeze", "unsqueeze", "select", "transpose") and n.args:
                pos = n.args[1:] if attr_chain(n.func) and attr_chain(n.func).startswith("torch.") else n.args
                if pos and isinstance(pos[0], ast.Constant) and pos[0].value in (1, 2) and nm != "transpose":
                    out.append(dump(n)[:40])
    return out


def r8_batch_rank(repo: Repo, rep):
    R = rep.rule("R-C03-8", "operators that accept any batch shape (components addressed with narrow(-1, ..) / dim=-1 only) stay that way: they neither address axis 1 "
                 "from the front nor delegate to an operator that does", floor=5,
                 why="`[:, i]`, dim=1 or a call of jac() inside div / grad / laplacian silently mixes rows and components for batches with more than one leading axis")
    mod = repo.module("utils.differentialoperators")
    funcs = mod.functions
    direct = {name: _axis1_evidence(fi.node) for name, fi in funcs.items()}

    def reach(name, seen):
        if name in seen:
            return None
        seen.add(name)
        if direct.get(name):
            return [name]
        fi = funcs[name]
        for c in ast.walk(fi.node):
            if isinstance(c, ast.Call) and isinstance(c.func, ast.Name) and c.func.id in funcs and c.func.id != name:
                sub = reach(c.func.id, seen)
                if sub:
                    return [name] + sub
        return None
    for name in ANY_RANK:
        fi = funcs.get(name)
        if fi is None:
            raise AnalysisError(f"differentialoperators.{name} vanished")
        rep.saw(fi)
        chain = reach(name, set())
        detail = ""
        if chain:
            detail = " -> ".join(chain) + f": {direct[chain[-1]][0]}"
        rep.check(R, not chain, fi.site(), fi.fq, "no front-counted axis in the operator or in the operators it calls", detail, f"{name}: {detail}")


def _inside_subscript_index(root: ast.AST, x: ast.AST) -> bool:
    """x lies in the index part of a subscript of root (index arithmetic is not tensor arithmetic)"""
    for s_ in ast.walk(root):
        if isinstance(s_, ast.Subscript) and any(y is x for y in ast.walk(s_.slice)):
            return True
    return False


def _view_of_params(name: str, fn_node: ast.AST, params, views, seen) -> bool:
    """every binding of `name` in the function is a parameter or a selection / view chain that ends at a parameter"""
    if name in seen:
        return True
    seen.add(name)
    binds = [a.value for a in ast.walk(fn_node) if isinstance(a, ast.Assign) and len(a.targets) == 1 and isinstance(a.targets[0], ast.Name) and a.targets[0].id == name]
    other = [a for a in ast.walk(fn_node) if isinstance(a, ast.Name) and isinstance(a.ctx, ast.Store) and a.id == name]
    if len(other) != len(binds):
        return False  # bound by a loop / unpacking / augmented assignment
    if not binds:
        return name in params
    for v in binds:
        base = v
        while isinstance(base, (ast.Subscript, ast.Attribute, ast.Call)):
            if isinstance(base, ast.Call):
                if not (isinstance(base.func, ast.Attribute) and base.func.attr in views):
                    return False
                base = base.func
            else:
                base = base.value
        if not isinstance(base, ast.Name) or not _view_of_params(base.id, fn_node, params, views, seen):
            return False
    return name in params or bool(binds)


# ------------------------------------------------------------------ R-C03-9
def r9_autograd_functions(repo: Repo, rep):
    R = rep.rule("R-C03-9", "custom autograd Functions keep their backward differentiable: save_for_backward / ctx attributes receive forward's own arguments, "
                 "never tensors computed inside forward (those are computed without a graph and enter the backward as constants)", floor=3,
                 why="a stored local derivative gives exact first derivatives but drops its own derivative: laplacian / second partials through the layer silently lose terms")
    n = 0
    for mname, m in repo.modules.items():
        classes = list(m.classes.values())
        for ci in classes:
            if not any(ends(dump(b), "autograd.Function") for b in ci.node.bases):
                continue
            fw = ci.methods.get("forward")
            if fw is None:
                continue
            rep.saw(fw)
            params = set(fw.params)
            ctx = fw.params[0] if fw.params else "ctx"
            from ..util import single_defs
            tmp = single_defs(fw.node)
            for c in ast.walk(fw.node):
                if isinstance(c, ast.Call) and dump(c.func) == f"{ctx}.save_for_backward":
                    n += 1
                    bad, unclear = [], []
                    from ..util import deref
                    VIEWS = ("unsqueeze", "squeeze", "reshape", "view", "transpose", "contiguous", "expand", "expand_as", "permute", "flatten", "narrow", "select", "t", "detach", "clone", "to", "float", "double")
                    for a in c.args:
                        v = deref(a, tmp)
                        computed = any(isinstance(x, (ast.BinOp, ast.Compare, ast.BoolOp)) or (isinstance(x, ast.UnaryOp) and not isinstance(x.op, ast.USub) or isinstance(x, ast.UnaryOp) and not isinstance(x.operand, ast.Constant))
                                       or (isinstance(x, ast.Call) and not (isinstance(x.func, ast.Attribute) and x.func.attr in VIEWS and not (attr_chain(x.func) or "").startswith("torch."))) for x in ast.walk(v)
                                       if not _inside_subscript_index(v, x))
                        base = v
                        while isinstance(base, (ast.Subscript, ast.Attribute, ast.Call)):
                            base = base.func if isinstance(base, ast.Call) else base.value
                        if computed:
                            bad.append(dump(v)[:60])
                        elif not (isinstance(base, ast.Name) and _view_of_params(base.id, fw.node, params, VIEWS, set())):
                            unclear.append(dump(v)[:60])
                    if unclear and not bad:
                        rep.undecided(R, fw.site(c), fw.fq, "saved tensors recognisable as (views of) forward's arguments", str(unclear))
                    else:
                        rep.check(R, not bad, fw.site(c), fw.fq, "only arguments of forward (or selections / views of them) are saved for the backward pass", f"saved: {bad}", f"{ci.name}: saves {bad}")
                if isinstance(c, ast.Assign) and any(isinstance(t, ast.Attribute) and dump(t.value) == ctx for t in c.targets):
                    v = c.value
                    computed = any(isinstance(x, (ast.BinOp, ast.Compare)) or (isinstance(x, ast.Call) and (attr_chain(x.func) or "").startswith("torch.")) for x in ast.walk(v)) \
                        and any(isinstance(x, ast.Name) and x.id in params and x.id != ctx for x in ast.walk(v))
                    n += 1
                    rep.check(R, not computed, fw.site(c), fw.fq, "context attributes hold arguments / plain settings, no tensor computed in forward", dump(c)[:80], f"{ci.name}: {dump(c)[:80]}")
            # backward: a derivative factor that must vanish on part of the domain is set to zero by a mask there, not obtained as a power of the
            # rectified input with a variable exponent (0 ** 0 = 1, 0 ** negative = inf)
            bw = ci.methods.get("backward")
            if bw is not None:
                rep.saw(bw)
                pows = []
                for x in ast.walk(bw.node):
                    base = expo = None
                    if isinstance(x, ast.BinOp) and isinstance(x.op, ast.Pow):
                        base, expo = x.left, x.right
                    elif isinstance(x, ast.Call) and (attr_chain(x.func) or "").split(".")[-1] in ("pow", "float_power") and len(x.args) >= 1:
                        base, expo = (x.args[0], x.args[1]) if (attr_chain(x.func) or "").startswith("torch.") and len(x.args) > 1 else (x.func.value if isinstance(x.func, ast.Attribute) else None, x.args[0])
                    if base is None:
                        continue
                    rectified = any(isinstance(c, ast.Call) and (attr_chain(c.func) or "").split(".")[-1] in ("relu", "clamp", "clamp_min", "clip", "maximum") for c in ast.walk(base))
                    const_ok = isinstance(expo, ast.Constant) and isinstance(expo.value, (int, float)) and expo.value >= 1
                    if rectified and not const_ok:
                        pows.append(dump(x)[:70])
                n += 1
                rep.check(R, not pows, bw.site(), bw.fq, "no power of a rectified (possibly exactly zero) value with a variable exponent in the backward pass", f"{pows}: 0 ** 0 = 1 and 0 ** (negative) = inf on the rectified part",
                          f"{ci.name}.backward: {pows}")
    # nested classes (e.g. GradReverse inside a model class) hold no state; they are listed by the class scan of their module when top-level only
    if n == 0:
        rep.undecided(R, "src/torchphysics", "-", "autograd Functions with saved state", "none found")


def run(repo: Repo, rep):
    from .c09 import r3_fast_path  # derivatives of a DeepONet output run through the library's own autograd Function: its backward must be the adjoint of its forward for every batch layout
    r3_fast_path(repo, rep)
    from .c04 import r8_per_function_points  # a derivative at one row never depends on other rows: operator conditions must hand every input function its own tracked copy of the points
    r8_per_function_points(repo, rep)
    r8_batch_rank(repo, rep)
    r9_autograd_functions(repo, rep)
    r1_call_discipline(repo, rep)
    r2_pairing(repo, rep)
    r3_tables(repo, rep)
    r4_short_circuit(repo, rep)
    r10_gradient_join(repo, rep)
    r11_callers_hand_over_the_differentiated_tensors(repo, rep)
    r5_accumulators(repo, rep)
    r6_value_free_control(repo, rep)
    r7_no_memo(repo, rep)


_D = "src/torchphysics/utils/differentialoperators.py"
MUTANTS = [
    dict(id="C03-M1", file=_D, old="            Du = torch.autograd.grad(\n                model_out.narrow(-1, var_dim + i, 1).sum(), vari, create_graph=True\n            )[0]", new="            Du = torch.autograd.grad(\n                model_out.narrow(-1, var_dim + i, 1).sum(), vari, create_graph=False\n            )[0]", rule="R-C03-1", what="create_graph dropped in div"),
    dict(id="C03-M2", file=_D, old="model_out.narrow(-1, var_dim + i, 1).sum()", new="model_out.narrow(-1, i, 1).sum()", rule="R-C03-2", what="offset ignored in div"),
    dict(id="C03-M3", file=_D, old="    rotation[:, 1] = jacobian[:, 0, 2] - jacobian[:, 2, 0]", new="    rotation[:, 1] = jacobian[:, 2, 0] - jacobian[:, 0, 2]", rule="R-C03-3", what="rot component sign"),
    dict(id="C03-M4", file=_D, old="        if grad.grad_fn is None:\n            continue", new="        if grad.grad_fn is None:\n            return laplacian", rule=None, rules=["R-C03-4", "R-C03-2"], what="early return drops later variables"),
    dict(id="C03-M5", file=_D, old="    return normal_derivatives.sum(dim=-1, keepdim=True)", new="    return normal_derivatives.sum(dim=1, keepdim=True)", rule="R-C03-3", what="reduction axis 1"),
    dict(id="C03-M6", file=_D, old="        var_dim += i + 1", new="        var_dim += 1", rule="R-C03-2", what="offset advances by one"),
    dict(id="C03-M7", file=_D, old="            laplacian += D2u.narrow(-1, i, 1)", new="            laplacian += D2u.narrow(-1, 0, 1)", rule="R-C03-2", what="always the first second-derivative component"),
    dict(id="C03-M8", file=_D, old="    return 0.5 * (jac_matrix + torch.transpose(jac_matrix, 1, 2))", new="    return 0.5 * (jac_matrix + torch.transpose(jac_matrix, 0, 1))", rule="R-C03-3", what="transpose of the batch axis"),
    dict(id="C03-M9", file=_D, old="    if any(g.dim() > 2 for g in grad):\n", new="    if any(g.dim() > 3 for g in grad):\n", rule="R-C03-10", what="operator batches joined along the point axis again (the repaired defect)"),
    dict(id="C03-M10", file=_D, old="        return torch.cat(grad, dim=-1)\n    return torch.column_stack(grad)", new="        return torch.cat(grad, dim=-1)\n    return torch.hstack(grad)", rule="R-C03-10", what="flat gradients appended below each other"),
    dict(id="C03-M11", file=_D, old="        du = torch.autograd.grad(du.sum(), inp, create_graph=True)[0]", new="        du = torch.autograd.grad(du.sum(), inp, create_graph=True)[0]\n        if du.grad_fn is None:\n            return torch.zeros_like(inp)", rule="R-C03-4", what="graph test on the derivative just taken"),
]
TWINS = [
    dict(id="C03-T1", file=_D, old="        var_dim += i + 1", new="        var_dim += vari.shape[-1]", what="explicit dimension"),
    dict(id="C03-T2", file=_D, old="            divergence = divergence + Du.narrow(-1, i, 1)", new="            divergence = divergence + Du[..., i : i + 1]", what="slice instead of narrow"),
    dict(id="C03-T3", file=_D, old="    if any(g.dim() > 2 for g in grad):\n", new="    if max(g.dim() for g in grad) >= 3:\n", what="rank test spelled with max"),
]

"""C18 — the bounding box encloses the domain."""
from __future__ import annotations

import ast
import copy
from fractions import Fraction
from typing import Dict, List, Optional, Set, Tuple

from ..absdom.poly import RF, NotPoly
from ..absdom.symtensor import NotSym, SymEval, Vec, binop
from ..flow import RAISE, attr_chain, dump, kwarg, paths
from ..inline import bind_args, expand_helpers
from ..repo import AnalysisError, ClassInfo, FuncInfo, Repo
from ..util import ends
from .c05 import _domain_class_of
from .c10 import shape_atom

EXPLANATION = (
    "Bounding boxes are evaluated symbolically: every entry of the returned vector becomes a reduction min{...}/max{...} over a "
    "set of symbolic corner coordinates (helpers inlined, loops over literal lists unrolled, the axis index instantiated); the set "
    "must contain every extreme point of the shape (centre ± radius, all corners) in the layout [min_1, max_1, min_2, max_2, ...]; "
    "the lattice rules of union/intersection/cut/product and the shift of Translate are matched on affine index forms; a linear "
    "image of a box must use all 2^d corners; consumers (NormalizationLayer, LHS) read the same layout; every overrider of "
    "bounding_box must accept the argument binding of every call site."
)
ASSUMPTIONS = [
    "shape functions evaluated on k parameter rows give k rows; min/max over rows reduce them (parameter rows are treated alike)",
    "shapely / trimesh bounds are correct",
    "tightness beyond 'the extreme points are exactly the listed ones' is not decided",
]
DOM = "problem.domains"


class Red:
    """min / max over a set of symbolic scalars"""

    def __init__(self, kind: str, items):
        self.kind = kind
        self.items = frozenset(items)

    def __repr__(self):
        return f"{self.kind}{{{', '.join(sorted(self.items))}}}"

    def __eq__(self, o):
        return isinstance(o, Red) and (self.kind, self.items) == (o.kind, o.items)

    def __hash__(self):
        return hash((self.kind, self.items))


class RowSet:
    def __init__(self, rows: List[Vec]):
        self.rows = rows


class ColSet:
    def __init__(self, items: List[RF]):
        self.items = items


class UnsoundBound(Exception):
    """an expression that is not an enclosing bound for every choice of parameter rows"""


class BoxEval(SymEval):
    def ev(self, e):
        if isinstance(e, ast.BinOp) and isinstance(e.op, (ast.Add, ast.Sub)):
            try:
                a, b = self.ev(e.left), self.ev(e.right)
            except NotSym:
                a = b = None
            if isinstance(a, Red) or isinstance(b, Red):
                return self._bound_arith(a, b, isinstance(e.op, ast.Add), e)
        if isinstance(e, ast.Call):
            fn = e.func
            ch = attr_chain(fn) or ""
            name = fn.attr if isinstance(fn, ast.Attribute) else (fn.id if isinstance(fn, ast.Name) else "")
            if isinstance(fn, ast.Attribute) and name == "item" and not e.args:
                return self.ev(fn.value)
            if ch in ("torch.min", "torch.max", "torch.amin", "torch.amax") and len(e.args) >= 1 and len(e.args) + len(e.keywords) <= 2:
                kind = "min" if "min" in ch else "max"
                if len(e.args) == 2 and not self._is_dim(e.args[1]):
                    a, b = self.ev(e.args[0]), self.ev(e.args[1])
                    return self._merge(kind, [self._as_red(kind, a), self._as_red(kind, b)])
                return self._as_red(kind, self.ev(e.args[0]))
            if isinstance(fn, ast.Attribute) and name in ("min", "max", "amin", "amax") and not ch.startswith(("torch.", "np.")):
                v = self.ev(fn.value)
                return self._as_red("min" if "min" in name else "max", v)
            if ch in ("min", "max") and e.args:
                items = e.args[0].elts if len(e.args) == 1 and isinstance(e.args[0], (ast.List, ast.Tuple)) else e.args
                vals = [self._as_red(ch, self.ev(x)) for x in items]
                return self._merge(ch, vals)
            if ch in ("torch.cat", "torch.concat", "torch.stack", "torch.vstack") and e.args and isinstance(e.args[0], (ast.Tuple, ast.List)):
                d = kwarg(e, "dim", 1)
                if ch == "torch.vstack" or d is None or dump(d) == "0":
                    rows: List[Vec] = []
                    for x in e.args[0].elts:
                        v = self.ev(x)
                        if isinstance(v, Vec):
                            rows.append(v)
                        elif isinstance(v, RowSet):
                            rows.extend(v.rows)
                        elif isinstance(v, (Red, RF)):
                            return super().ev(e) if not isinstance(v, Red) else self._vector_of(e)
                        else:
                            raise NotSym("row concatenation operand")
                    return RowSet(rows)
        if isinstance(e, ast.Call) and (attr_chain(e.func) or "") in ("torch.minimum", "torch.maximum") and len(e.args) == 2:
            # element-wise: min(a, b) + c = min(a + c, b + c), so it is a reduction over candidates like the row reductions
            kind = "min" if attr_chain(e.func).endswith("minimum") else "max"
            a, b = self.ev(e.args[0]), self.ev(e.args[1])
            return self._merge(kind, [self._as_red(kind, a), self._as_red(kind, b)])
        if isinstance(e, ast.Call) and (attr_chain(e.func) or "") in ("torch.zeros_like", "torch.zeros") :
            return RF.const(0)
        if isinstance(e, ast.Subscript) and not getattr(e, "_tuple_elt", False) and isinstance(e.value, ast.BinOp) and isinstance(e.value.op, (ast.Add, ast.Sub)):
            # (A + B)[:, i] = A[:, i] + B[:, i]
            v = e.value
            return self.ev(ast.BinOp(left=ast.Subscript(value=v.left, slice=e.slice, ctx=ast.Load()), op=v.op, right=ast.Subscript(value=v.right, slice=e.slice, ctx=ast.Load())))
        if isinstance(e, ast.Subscript) and not getattr(e, "_tuple_elt", False) and isinstance(e.value, ast.Call) and (attr_chain(e.value.func) or "") in ("torch.minimum", "torch.maximum", "torch.zeros_like") and len(e.value.args) >= 1:
            c = e.value
            return self.ev(ast.Call(func=c.func, args=[ast.Subscript(value=a, slice=e.slice, ctx=ast.Load()) for a in c.args], keywords=[]))
        if isinstance(e, ast.Subscript) and not getattr(e, "_tuple_elt", False) and isinstance(e.value, ast.UnaryOp) and isinstance(e.value.op, ast.USub):
            return self.ev(ast.UnaryOp(op=ast.USub(), operand=ast.Subscript(value=e.value.operand, slice=e.slice, ctx=ast.Load())))
        if isinstance(e, ast.Subscript) and not getattr(e, "_tuple_elt", False):
            try:
                base = self.ev(e.value)
            except NotSym:
                base = None
            if isinstance(base, RowSet):
                from ..absdom.poly import component_of
                fake = ast.Subscript(value=ast.Name(id="_", ctx=ast.Load()), slice=e.slice, ctx=ast.Load())
                c = component_of(fake)
                if c is not None and isinstance(c[1], int):
                    return ColSet([r.c[c[1]] for r in base.rows])
                raise NotSym("selection on stacked rows")
        return super().ev(e)

    def _bound_arith(self, a, b, add: bool, e):
        """min/max of rows combined with +/-: min(A) + min(B) and min(A) - max(B) are lower bounds of A ± B for every row pairing,
        max(A) + max(B) and max(A) - min(B) upper bounds; the mixed forms are not bounds when the rows differ"""
        def items(v):
            if isinstance(v, Red):
                return sorted(v.items), v.kind
            if isinstance(v, RF):
                return [self._remember(v)], None
            raise NotSym(f"bound arithmetic on {type(v).__name__}")
        (ia, ka), (ib, kb) = items(a), items(b)
        kind = ka or (kb if add else {"min": "max", "max": "min"}[kb])
        need_b = kind if add else {"min": "max", "max": "min"}[kind]
        if ka is not None and kb is not None and kb != need_b:
            raise UnsoundBound(f"`{dump(e)[:70]}` combines {ka}(.) {'+' if add else '-'} {kb}(.): for parameter rows with different values this is not a {'lower' if kind == 'min' else 'upper'} bound of the row-wise {'sum' if add else 'difference'}")
        return Red(kind, [self._combine(x, y, add) for x in ia for y in ib])

    def _combine(self, x: str, y: str, add: bool) -> str:
        # Red items are reprs of RFs; the RFs themselves are remembered by _remember
        reg = self.__dict__.setdefault("_rf", {})
        if x not in reg or y not in reg:
            raise NotSym("bound arithmetic on an unknown item")
        v = reg[x] + reg[y] if add else reg[x] - reg[y]
        reg[repr(v)] = v
        return repr(v)

    def _remember(self, v: RF) -> str:
        self.__dict__.setdefault("_rf", {})[repr(v)] = v
        return repr(v)

    def _vector_of(self, e):
        return [self.ev(x) for x in e.args[0].elts]

    @staticmethod
    def _is_dim(a):
        return isinstance(a, ast.Constant) and isinstance(a.value, int)

    def _as_red(self, kind, v) -> Red:
        if isinstance(v, Red):
            if v.kind != kind:
                raise NotSym(f"{kind} of a {v.kind}")
            return v
        if isinstance(v, RF):
            return Red(kind, [self._remember(v)])
        if isinstance(v, ColSet):
            return Red(kind, [self._remember(x) for x in v.items])
        if isinstance(v, Vec):
            return Red(kind, [self._remember(x) for x in v.c])
        raise NotSym(f"{kind} of {type(v).__name__}")

    def _merge(self, kind, reds: List[Red]) -> Red:
        items = set()
        for r in reds:
            if r.kind != kind:
                raise NotSym(f"{kind} over {r.kind} values")
            items |= r.items
        return Red(kind, items)


def _centre_atom(dim):
    def atom(n, ev):
        got = shape_atom(n, ev)
        if got is not None:
            return got
        x = n
        while isinstance(x, ast.Call) and isinstance(x.func, ast.Attribute) and x.func.attr in ("reshape", "view", "squeeze", "unsqueeze"):
            x = x.func.value
        if isinstance(x, ast.Call) and (attr_chain(x.func) or "").split(".")[-1] == "center":
            return Vec([RF.atom(f"c.{i}") for i in range(dim)])
        if isinstance(x, ast.Call) and (attr_chain(x.func) or "").split(".")[-1] == "point":
            return Vec([RF.atom(f"pt.{i}") for i in range(dim)])
        return None
    return atom


def _subst_index(expr: ast.AST, name: str, k: int) -> ast.AST:
    class T(ast.NodeTransformer):
        def visit_Name(self, node):
            if node.id == name:
                return ast.Constant(value=k)
            return node

        def visit_BinOp(self, node):
            node = self.generic_visit(node)
            if isinstance(node.left, ast.Constant) and isinstance(node.right, ast.Constant) and isinstance(node.left.value, int) and isinstance(node.right.value, int):
                if isinstance(node.op, ast.Mult):
                    return ast.Constant(value=node.left.value * node.right.value)
                if isinstance(node.op, ast.Add):
                    return ast.Constant(value=node.left.value + node.right.value)
            return node
    return T().visit(copy.deepcopy(expr))


def _box_elements(ret: ast.AST) -> Optional[List[ast.AST]]:
    """the list of entries of a returned box: torch.tensor([..]) / torch.stack((..)) / list"""
    r = ret
    if isinstance(r, ast.Call) and attr_chain(r.func) in ("torch.tensor", "torch.stack", "torch.as_tensor", "torch.cat") and r.args and isinstance(r.args[0], (ast.List, ast.Tuple)):
        return list(r.args[0].elts)
    if isinstance(r, (ast.List, ast.Tuple)):
        return list(r.elts)
    return None


PRIM_SPECS = {
    # class: (module, dim, required extreme coordinates per axis as (lower set, upper set) builders)
    "Circle": ("domain2D.circle", 2, "ball"),
    "Sphere": ("domain3D.sphere", 3, "ball"),
    "Interval": ("domain1D.interval", 1, "interval"),
    "Parallelogram": ("domain2D.parallelogram", 2, "corners4"),
    "Triangle": ("domain2D.triangle", 2, "corners3"),
}


def _required(kind: str, axis: int) -> Tuple[Set[str], Set[str]]:
    r = RF.atom("r")
    if kind == "ball":
        c = RF.atom(f"c.{axis}")
        return {repr(c - r)}, {repr(c + r)}
    if kind == "interval":
        return {repr(RF.atom("lb"))}, {repr(RF.atom("ub"))}
    o, p, q = (RF.atom(f"{n}.{axis}") for n in "opq")
    if kind == "corners3":
        s = {repr(o), repr(p), repr(q)}
        return s, s
    s = {repr(o), repr(p), repr(q), repr(p + q - o)}
    return s, s


def r1_r2_primitives(repo: Repo, rep):
    R1 = rep.rule("R-C18-1", "primitive boxes: entry 2i is the minimum and entry 2i+1 the maximum over exactly the extreme coordinates of axis i, in space order", floor=9,
                  why="swapped or mis-ordered entries make consumers read a maximum as a minimum")
    R2 = rep.rule("R-C18-2", "corner completeness: a parallelogram uses all 4 corners (incl. c1 + c2 - o), a triangle all 3", floor=4,
                  why="a missing corner makes the box too small for every non-axis-aligned shape")
    for cname, (mod, dim, kind) in PRIM_SPECS.items():
        ci = repo.cls(f"{DOM}.{mod}.{cname}")
        fi = ci.methods.get("bounding_box")
        if fi is None:
            raise AnalysisError(f"{cname}.bounding_box vanished")
        rep.saw(fi)
        for p in paths(fi.node):
            if p.ret is RAISE or p.ret is None:
                continue
            ret = expand_helpers(repo, ci, p.ret)
            elts = _box_elements(ret)
            if elts is None:
                rep.undecided(R1, fi.site(p.ret_node), fi.fq, "box entries extractable", dump(ret)[:80])
                continue
            axis_vars = [k for k, it in p.loopvars.items() if dump(it).replace(" ", "") in ("range(self.dim)", "range(self.space.dim)", f"range({dim})")]
            entries: List[Tuple[int, str, ast.AST]] = []
            if axis_vars and len(elts) == 2:
                for k in range(dim):
                    entries.append((k, "lo", _subst_index(elts[0], axis_vars[0], k)))
                    entries.append((k, "hi", _subst_index(elts[1], axis_vars[0], k)))
            elif len(elts) == 2 * dim:
                for k in range(dim):
                    entries.append((k, "lo", elts[2 * k]))
                    entries.append((k, "hi", elts[2 * k + 1]))
            else:
                rep.violation(R1, fi.site(p.ret_node), fi.fq, f"2*{dim} entries [min, max] per axis", f"{len(elts)} entries", f"{len(elts)} entries")
                continue
            for k, side, e in entries:
                ev = BoxEval(_centre_atom(dim))
                try:
                    v = ev.ev(e)
                    if isinstance(v, RF):
                        v = Red("min" if side == "lo" else "max", [repr(v)])
                except UnsoundBound as err:
                    rep.violation(R1, fi.site(p.ret_node), fi.fq, f"axis {k} {side} entry encloses every parameter row", str(err), f"axis{k} {side} unsound bound arithmetic")
                    continue
                except (NotSym, NotPoly) as err:
                    rep.undecided(R1, fi.site(p.ret_node), fi.fq, f"axis {k} {side} entry evaluable", str(err))
                    continue
                lo_req, hi_req = _required(kind, k)
                req = lo_req if side == "lo" else hi_req
                want_kind = "min" if side == "lo" else "max"
                if not isinstance(v, Red):
                    rep.undecided(R1, fi.site(p.ret_node), fi.fq, f"axis {k} {side} entry is a reduction", repr(v)[:80])
                    continue
                rep.check(R1, v.kind == want_kind, fi.site(p.ret_node), fi.fq, f"entry {2 * k + (side == 'hi')} is the {want_kind} of axis {k}", repr(v)[:120], f"axis{k} {side} {v.kind}")
                rule = R2 if kind.startswith("corners") else R1
                missing = sorted(req - set(v.items))
                extra = sorted(set(v.items) - req)
                rep.check(rule, not missing and not extra, fi.site(p.ret_node), fi.fq, f"axis {k} {side}: reduction over exactly {sorted(req)}",
                          f"{v!r}" + (f"; missing {missing}" if missing else "") + (f"; foreign {extra}" if extra else ""), f"axis{k} {side}: missing {missing} extra {extra}")


def _lattice_entry(e: ast.AST, i: str):
    """min([A[2*i], B[2*i]]) -> ('min', {'A.lo','B.lo'})"""
    if not (isinstance(e, ast.Call) and attr_chain(e.func) in ("min", "max", "torch.min", "torch.max", "torch.minimum", "torch.maximum")):
        return None
    kind = "min" if "min" in attr_chain(e.func) else "max"
    items = e.args[0].elts if len(e.args) == 1 and isinstance(e.args[0], (ast.List, ast.Tuple)) else e.args
    out = set()
    for x in items:
        if not isinstance(x, ast.Subscript):
            return None
        base = dump(x.value)
        idx = dump(x.slice).replace(" ", "")
        if idx in (f"2*{i}", f"{i}*2"):
            side = "lo"
        elif idx in (f"2*{i}+1", f"{i}*2+1", f"1+2*{i}"):
            side = "hi"
        else:
            return None
        who = "A" if "domain_a" in base else "B" if "domain_b" in base else None
        if who is None or "bounding_box" not in base:
            return None
        out.add(f"{who}.{side}")
    return kind, out


def r3_lattice(repo: Repo, rep):
    R = rep.rule("R-C18-3", "union = (min of lowers, max of uppers); intersection = (max of lowers, min of uppers); cut = box of A; product = concatenation in "
                 "space order; translate shifts both ends of every axis by the same value", floor=7,
                 why="any other combination is not an enclosing (resp. the documented) box")
    ops = f"{DOM}.domainoperations"
    for mod, cname, lo_want, hi_want in (("union", "UnionDomain", ("min", {"A.lo", "B.lo"}), ("max", {"A.hi", "B.hi"})),
                                         ("intersection", "IntersectionDomain", ("max", {"A.lo", "B.lo"}), ("min", {"A.hi", "B.hi"}))):
        ci = repo.cls(f"{ops}.{mod}.{cname}")
        fi = ci.methods.get("bounding_box")
        if fi is None:
            raise AnalysisError(f"{cname}.bounding_box vanished")
        rep.saw(fi)
        # partial evaluation for 1, 2 and 3 axes with symbolic operand boxes [A.lo0, A.hi0, ...]
        from ..absdom.listeval import Evaluator, NotEval, Opaque, Term, Vec1, UNKNOWN, norm
        pa_ok = True
        for c in ast.walk(fi.node):
            if isinstance(c, ast.Call) and isinstance(c.func, ast.Attribute) and c.func.attr == "bounding_box" and dump(c.func.value) in ("self.domain_a", "self.domain_b"):
                pa = kwarg(c, "params", 0)
                pa_ok = pa_ok and pa is not None and dump(pa) == fi.params[1]
        rep.check(R, pa_ok, fi.site(), fi.fq, "operand boxes computed for the caller's params", "another params argument", "operand params")
        for D in (1, 2, 3):
            def resolve(e, ev, f, D=D):
                t = dump(e).replace(" ", "")
                if t in ("self.space.dim", "self.domain_a.space.dim", "self.domain_b.space.dim", "len(self.space)"):
                    return D
                if t in ("self.dim", "self.domain_a.dim", "self.domain_b.dim"):
                    return D - 1  # the intrinsic dimension of a lower-dimensional set (a boundary, a time slice) is smaller than the number of axes
                if isinstance(e, ast.Name) and e.id in fi.params:
                    return Opaque(e.id)
                return None

            def on_call(e, name, args, kws, ev, f, D=D):
                if isinstance(e.func, ast.Attribute) and e.func.attr == "bounding_box" and dump(e.func.value) in ("self.domain_a", "self.domain_b"):
                    w = "A" if dump(e.func.value).endswith("_a") else "B"
                    return Vec1([RF.atom(f"{w}.{s}{k}") for k in range(D) for s in ("lo", "hi")])
                return None
            ev = Evaluator(resolve, on_call)
            fr = ev.run(fi.node.body, {})
            got = fr.ret
            if got is None or got is UNKNOWN or not isinstance(got, list):
                rep.undecided(R, fi.site(), fi.fq, f"box evaluable for {D} axes", f"result {got!r}"[:100])
                continue
            want = []
            for k in range(D):
                for kind, side in ((lo_want[0], "lo"), (hi_want[0], "hi")):
                    t = Term(kind, [])
                    t.args = frozenset({f"A.{side}{k}", f"B.{side}{k}"})
                    want.append(t)
            rep.check(R, norm(got) == norm(want), fi.site(), fi.fq, f"{D} axes: box = [{lo_want[0]}(A.lo_i, B.lo_i), {hi_want[0]}(A.hi_i, B.hi_i)] per axis i",
                      f"{norm(got)}", f"D={D}: {norm(got)}")
    ci = repo.cls(f"{ops}.cut.CutDomain")
    fi = ci.methods.get("bounding_box")
    rep.saw(fi)
    for p in paths(fi.node):
        if p.ret is not RAISE:
            rep.check(R, dump(p.ret) == "self.domain_a.bounding_box(params, device)", fi.site(), fi.fq, "box(A \\\\ B) = box(A)", dump(p.ret), dump(p.ret))
    ci = repo.cls(f"{ops}.product.ProductDomain")
    fi = ci.methods.get("bounding_box")
    rep.saw(fi)
    n = 0
    for p in paths(fi.node):
        if p.ret is RAISE or p.ret is None:
            continue
        r = p.ret
        if dump(r) == "self.bounds":
            g = [pol for gg, pol, k in p.guards if dump(gg) in ("self.bounds", "self.bounds is not None")]
            rep.check(R, bool(g) and g[0], fi.site(p.ret_node), fi.fq, "user-set bounds returned only when set", str(g), "bounds")
            continue
        n += 1
        good = isinstance(r, ast.Call) and attr_chain(r.func) == "torch.cat" and r.args and isinstance(r.args[0], (ast.Tuple, ast.List)) and len(r.args[0].elts) == 2
        if good:
            a, b = r.args[0].elts
            good = dump(a).startswith("self.domain_a.bounding_box(") and dump(b).startswith("self.domain_b.bounding_box(")
        rep.check(R, good, fi.site(p.ret_node), fi.fq, "box(A × B) = cat(box(A), box(B)) — the order of space(A) * space(B)", dump(r)[:140], dump(r)[:140])
    init = ci.methods.get("__init__")
    for p in paths(init.node, expand_self=False):
        v = next((e.value for e in p.events if e.kind == "eval" and e.value is not None and "self.domain_a.space * self.domain_b.space" in dump(e.value)), None)
        rep.check(R, v is not None, init.site(), init.fq, "product space = space(A) * space(B) (matches the box concatenation)", "space product not found", "space order")
        break
    ci = repo.cls(f"{ops}.translate.Translate")
    fi = ci.methods.get("bounding_box")
    rep.saw(fi)
    for p in paths(fi.node):
        if p.ret is RAISE or p.ret is None:
            continue
        r = p.ret
        good = isinstance(r, ast.BinOp) and isinstance(r.op, ast.Add)
        if good:
            sides = [r.left, r.right]
            box = [s for s in sides if dump(s).startswith("self.domain.bounding_box(")]
            shift = [s for s in sides if s not in box]
            good = len(box) == 1 and len(shift) == 1
            if good:
                s = shift[0]
                good = isinstance(s, ast.Call) and ends(attr_chain(s.func), "repeat_interleave") and len(s.args) >= 2 and dump(s.args[1]) == "2" and "self.translate_fn(params)" in dump(s.args[0]) \
                    and (dump(kwarg(s, "dim", 2)) in ("1", "-1"))
        rep.check(R, good, fi.site(p.ret_node), fi.fq, "inner box + repeat_interleave(translation, 2, dim=1): both ends of an axis shifted equally", dump(r)[:160], dump(r)[:160])


def r9_no_rounding(repo: Repo, rep):
    R = rep.rule("R-C18-9", "bounds are never rounded to nearest / truncated (a box may only grow)", floor=10,
                 why="rounding a lower bound up or an upper bound down by half a unit in the last kept place leaves points outside the box")
    D = repo.cls(f"{DOM}.domain.Domain")
    n = 0
    for ci in repo.subclasses(D, strict=True):
        fi = ci.methods.get("bounding_box")
        if fi is None:
            continue
        n += 1
        rep.saw(fi)
        bad = sorted({dump(c)[:60] for c in ast.walk(fi.node) if isinstance(c, ast.Call) and (attr_chain(c.func) or dump(c.func)).split(".")[-1] in ("round", "round_", "trunc", "fix", "floor", "ceil", "int", "half", "bfloat16")
                      and not (isinstance(c.func, ast.Name) and c.func.id == "int" and c.args and "dim" in dump(c.args[0]))})
        rep.check(R, not bad, fi.site(), fi.fq, "no rounding of the bounds", str(bad[:2]), f"rounding {bad[:1]}")
    if n == 0:
        rep.undecided(R, D.module.relpath, D.fq, "bounding_box methods", "none found")


def r4_r6_motions(repo: Repo, rep):
    R4 = rep.rule("R-C18-4", "a linear image of a box is bounded using all 2^d corners (or |M|·half-widths), not just the min and max corner", floor=1,
                  why="rotating only two opposite corners gives a degenerate box for most angles (45°: zero width)")
    R6 = rep.rule("R-C18-6", "boxes of moved domains are reduced over the parameter rows to one 1-D vector [min, max, ...]", floor=2,
                  why="consumers index the box as a flat vector; a (k, 2d) matrix raises or is misread for k > 1")
    ops = f"{DOM}.domainoperations"
    ci = repo.cls(f"{ops}.rotate.Rotate")
    fi = ci.methods.get("bounding_box")
    if fi is None:
        raise AnalysisError("Rotate.bounding_box vanished")
    rep.saw(fi)
    src = ast.unparse(fi.node)
    images = [c for c in ast.walk(fi.node) if isinstance(c, ast.Call) and attr_chain(c.func) in ("torch.matmul", "torch.bmm") and "rotation_matrix" in dump(c.args[0])]
    corner_args = sorted({dump(c.args[1]) for c in images})
    uses_abs = "abs(" in src
    all_corners = len(images) >= 4 or uses_abs or "itertools.product" in src or "meshgrid" in src
    rep.check(R4, all_corners, fi.site(), fi.fq, "every corner of the inner box is rotated (4 in 2-D) or |R| is applied to the half-widths",
              f"{len(images)} rotated corner(s): {[a[:50] for a in corner_args]}", f"rotated corners: {len(images)}")
    # the pivot / translation enters the flat layout [min_0, max_0, min_1, max_1, ..]: each component twice in a row
    R7 = rep.rule("R-C18-8", "offsets added to a box follow its layout [min_i, max_i]: every component of the offset vector is repeated twice in place (repeat_interleave(v, 2, dim=1))", floor=2,
                  why="tiling (v, v) instead puts the y-offset on the x-maximum")
    for mod, cname, fn in (("translate", "Translate", "self.translate_fn"), ("rotate", "Rotate", "self.rotate_around")):
        ci = repo.cls(f"{ops}.{mod}.{cname}")
        fi = ci.methods.get("bounding_box")
        found = 0
        for p in paths(fi.node):
            if p.ret is RAISE or p.ret is None:
                continue
            seen = set()
            for e in p.events:
                if e.value is None:
                    continue
                for c in ast.walk(e.value):
                    if not isinstance(c, ast.Call) or fn + "(" not in dump(c):
                        continue
                    name = c.func.attr if isinstance(c.func, ast.Attribute) else ""
                    ch = attr_chain(c.func) or ""
                    if name in ("repeat", "tile", "expand") and fn + "(" in dump(c.func.value) and dump(c) not in seen:
                        seen.add(dump(c))
                        found += 1
                        rep.violation(R7, fi.site(e.node), fi.fq, "offset components repeated in place (min and max of one axis get the same shift)", dump(c)[:100], "offset tiled")
                    if ch.endswith("repeat_interleave") and dump(c) not in seen:
                        seen.add(dump(c))
                        args = list(c.args) if ch.startswith("torch.") else [c.func.value] + list(c.args)
                        cnt = args[1] if len(args) > 1 else kwarg(c, "repeats")
                        dim = args[2] if len(args) > 2 else kwarg(c, "dim")
                        found += 1
                        rep.check(R7, cnt is not None and dump(cnt) == "2" and dim is not None and dump(dim) in ("1", "-1"), fi.site(e.node), fi.fq,
                                  "repeat_interleave(offset, 2, dim=1)", dump(c)[:100], dump(c)[:100])
            break
        if found == 0:
            rep.undecided(R7, fi.site(), fi.fq, "the replication of the offset vector", "not found")
    for mod, cname in (("translate", "Translate"), ("rotate", "Rotate")):
        ci = repo.cls(f"{ops}.{mod}.{cname}")
        fi = ci.methods.get("bounding_box")
        rep.saw(fi)
        src = ast.unparse(fi.node)
        reduces = any(isinstance(c, ast.Call) and attr_chain(c.func) in ("torch.min", "torch.max", "torch.amin", "torch.amax") and (kwarg(c, "dim", 1) is not None and dump(kwarg(c, "dim", 1)) == "0")
                      for c in ast.walk(fi.node)) or ".min(dim=0)" in src or ".amin(0)" in src or ".amin(dim=0)" in src
        rep.check(R6, reduces, fi.site(), fi.fq, "per-row shifted boxes are reduced with min/max over axis 0 before returning",
                  "returns inner box + per-row motion values (shape (k, 2d) for k parameter rows)", "no reduction over parameter rows")


def r5_consumers(repo: Repo, rep):
    R = rep.rule("R-C18-5", "consumers read the layout [min_i at 2i, max_i at 2i+1]: NormalizationLayer maps min -> -1 and max -> +1; LHS strata span [box[2i], box[2i+1]]",
                 floor=4, why="a consumer reading maxima as minima normalises/samples outside the domain")
    nl = repo.cls("models.model.NormalizationLayer")
    init = nl.methods.get("__init__")
    if init is None:
        raise AnalysisError("NormalizationLayer.__init__ vanished")
    rep.saw(init)
    for p in paths(init.node, expand_self=False):
        if p.ret is RAISE:
            continue
        w = [e.value for e in p.events if e.kind in ("call", "with", "eval") and e.value is not None and "self.normalize.weight.copy_" in dump(e.value)]
        b = [e.value for e in p.events if e.kind in ("call", "with", "eval") and e.value is not None and "self.normalize.bias.copy_" in dump(e.value)]
        if not w or not b:
            rep.undecided(R, init.site(), init.fq, "weight/bias initialisation", "copy_ calls not found")
            continue

        axis_vars = [k for k, it in p.loopvars.items() if "range(" in dump(it)]
        iv = axis_vars[0] if axis_vars else "i"

        def atom(n, ev, iv=iv):
            if isinstance(n, ast.Subscript):
                t = dump(n).replace(" ", "")
                if t.endswith(f"[::2][{iv}]"):
                    return RF.atom("MIN")
                if t.endswith(f"[1::2][{iv}]"):
                    return RF.atom("MAX")
            if isinstance(n, ast.Call) and attr_chain(n.func) in ("torch.tensor", "torch.diag") and n.args:
                a0 = n.args[0]
                if isinstance(a0, ast.List) and len(a0.elts) == 1:
                    return ev.ev(a0.elts[0])
                return ev.ev(a0)
            return None
        try:
            ev = SymEval(atom)
            diag = ev.ev(w[0].args[0])
            bias = ev.ev(b[0].args[0])
            lo = diag * RF.atom("MIN") + bias
            hi = diag * RF.atom("MAX") + bias
            rep.check(R, lo == RF.const(-1) and hi == RF.const(1), init.site(), init.fq, "x -> diag*x + bias maps box min to -1 and box max to +1 (min = box[::2], max = box[1::2])",
                      f"min -> {lo!r}, max -> {hi!r}", f"{lo!r}|{hi!r}")
        except (NotSym, NotPoly) as err:
            rep.undecided(R, init.site(), init.fq, "affine normalisation evaluable", str(err))
        box = [e.value for e in p.events if e.kind == "eval" and e.value is not None and dump(e.value) == "domain.bounding_box()"]
        rep.check(R, bool(box), init.site(), init.fq, "the box of the layer's own domain is used", "domain.bounding_box() not evaluated", "box source")
        rng = [dump(it) for k, it in p.loopvars.items()]
        per_axis = ("range(domain.space.dim)", "range(self.input_space.dim)", "range(len(domain.bounding_box()[::2]))", "range(len(domain.bounding_box()[1::2]))", "range(len(domain.bounding_box())//2)",
                    "range(domain.bounding_box().shape[0]//2)", "range(len(domain.space))")
        rep.check(R, any(r.replace(" ", "") in per_axis for r in rng), init.site(), init.fq, "one scale / shift per axis of the box, i.e. per dimension of the domain's SPACE (a boundary domain has domain.dim = space.dim - 1)",
                  str(rng), str(rng))
    lhs = repo.cls("problem.samplers.random_samplers.LHSSampler")
    fi = lhs.methods.get("_create_lhs_in_bounding_box")
    if fi is None:
        raise AnalysisError("LHSSampler._create_lhs_in_bounding_box vanished")
    rep.saw(fi)
    bb = fi.params[1]
    from .c11 import lhs_axis_formula
    n_lhs = 0
    for p in paths(fi.node):
        if p.ret is RAISE:
            continue
        stores = [e for e in p.events if e.kind == "store"]
        axis = [k for k, it in p.loopvars.items() if "range(self.domain.dim)" in dump(it).replace(" ", "")]
        if len(stores) != 1 or not axis:
            rep.undecided(R, fi.site(), fi.fq, "one column store per axis", f"{len(stores)} stores, axis loop {axis}")
            continue
        n_lhs += 1
        v = stores[0].value
        base = v.value if isinstance(v, ast.Subscript) and isinstance(v.slice, ast.Call) and attr_chain(v.slice.func) == "torch.randperm" else v
        try:
            val, want = lhs_axis_formula(p, base, bb, axis[0])
            rep.check(R, want is not None and val == want, fi.site(stores[0].node), fi.fq, "strata of axis i span [box[2i], box[2i+1]]: point = lo + (hi - lo)/n * (i + U)", f"{val!r}", f"{val!r}")
        except (NotSym, NotPoly) as err:
            rep.undecided(R, fi.site(stores[0].node), fi.fq, "stratum formula evaluable", str(err))
    if n_lhs == 0:
        rep.undecided(R, fi.site(), fi.fq, "a path storing the axis points", "none")
    # (the box of the current parameter row inside the per-row loop: decided by R-C18-15)
    r15_lhs_per_row_per_axis(repo, rep)


def r7_signatures(repo: Repo, rep):
    R = rep.rule("R-C18-7", "G-SIG: every overrider of bounding_box accepts the argument binding of every in-repo call site (positional order, no parameter bound twice)",
                 floor=14, why="a call resolved to an incompatible overrider raises TypeError or silently binds params to `device`")
    D = repo.cls(f"{DOM}.domain.Domain")
    base = D.methods.get("bounding_box")
    base_pos = base.params[1:]
    overriders = repo.overriders(D, "bounding_box")
    sites = []
    for fi in repo.all_functions():
        for c in ast.walk(fi.node):
            if isinstance(c, ast.Call) and isinstance(c.func, ast.Attribute) and c.func.attr == "bounding_box":
                recv = dump(c.func.value)
                if recv in ("self", "super()"):
                    continue
                sites.append((fi, c))
    for o in overriders:
        rep.saw(o)
        params = o.params[1:]
        bad = []
        for fi, c in sites:
            if any(isinstance(a, ast.Starred) for a in c.args) or any(k.arg is None for k in c.keywords):
                continue
            bound = {}
            err = None
            if len(c.args) > len(params):
                err = f"{len(c.args)} positional arguments for {len(params)} parameters"
            for i, a in enumerate(c.args[: len(params)]):
                bound[params[i]] = a
                if i < len(base_pos) and params[i] != base_pos[i]:
                    err = f"positional argument {i} (`{base_pos[i]}` of the interface) binds to `{params[i]}`"
            for k in c.keywords:
                if k.arg in bound:
                    err = f"`{k.arg}` bound twice"
                elif k.arg not in params:
                    err = f"unexpected keyword `{k.arg}`"
            if err:
                bad.append(f"{fi.fq.split('.')[-2]}.{fi.name}: {dump(c)[:60]} -> {err}")
        rep.check(R, not bad, o.site(), o.fq, f"signature {tuple(params)} compatible with all {len(sites)} call sites of Domain.bounding_box",
                  f"{len(bad)} incompatible call site(s), e.g. {bad[0]}" if bad else "ok", f"signature {tuple(params)}")


def r10_membership_within_box(repo: Repo, rep):
    R = rep.rule("R-C18-10", "the membership test of a ball-shaped primitive accepts nothing beyond the radius its box is built with: distance <= radius (no factor above 1, no added slack)",
                 floor=2, why="points accepted by a widened membership test lie outside the box centre ± radius: consumers normalise them beyond [-1, 1]")
    from ..absdom.poly import NotPoly
    from .c05 import radial_membership
    r = RF.atom("r")
    for ci, fi, node, kind, bound, text in radial_membership(repo):
        rep.saw(fi)
        if kind != "norm" or bound is None:
            rep.undecided(R, fi.site(node), fi.fq, "distance <= bound(radius) recognisable", text)
            continue
        try:
            lin = bound.coeff_of("r")
            rest = bound - lin * r
            ok = lin.is_const() and rest.is_const() and lin.const_value() <= 1 and rest.const_value() <= 0
        except NotPoly:
            rep.undecided(R, fi.site(node), fi.fq, "bound linear in the radius", repr(bound))
            continue
        rep.check(R, ok, fi.site(node), fi.fq, "bound <= radius (the box uses centre ± radius)", f"bound {bound!r}", f"bound {bound!r}")


# ------------------------------------------------------------------ R-C18-11 / 12 / 13
def r11_same_space_operands(repo: Repo, rep):
    R = rep.rule("R-C18-11", "union / cut / intersection accept only operands in the SAME space, variable order included (order-sensitive Space equality): their boxes are merged entry by entry", floor=7,
                 why="with operands in x*y and y*x the y-interval of one is merged into the x-axis of the other: the box misses part of the set")
    from ..util import norm_compare
    dom = repo.cls("problem.domains.domain.Domain")
    for name in ("__add__", "__sub__", "__and__"):
        fi = dom.methods.get(name)
        if fi is None:
            raise AnalysisError(f"Domain.{name} vanished")
        rep.saw(fi)
        other = fi.params[1]
        sides = sorted(["self.space", f"{other}.space"])
        guarded = False
        for p in paths(fi.node):
            if p.ret is not RAISE:
                continue
            for g, pol, k in p.guards:
                op, l, r, pl = norm_compare(g, pol)
                if op == "==" and [l, r] == sides and not pl:
                    guarded = True
        rep.check(R, guarded, fi.site(), fi.fq, f"raises when self.space != {other}.space (compared as Spaces)", "no such raising guard", f"{name}: no order-sensitive space guard")
    for mod, cname in (("union", "UnionDomain"), ("cut", "CutDomain"), ("intersection", "IntersectionDomain")):
        ci = repo.cls(f"problem.domains.domainoperations.{mod}.{cname}")
        init = ci.methods.get("__init__")
        if init is None:
            raise AnalysisError(f"{cname}.__init__ vanished")
        rep.saw(init)
        a, b = init.params[1], init.params[2]
        sides = sorted([f"{a}.space", f"{b}.space"])
        ok = False
        for n in ast.walk(init.node):
            if isinstance(n, ast.Assert):
                op, l, r, pl = norm_compare(n.test, True)
                ok = ok or (op == "==" and [l, r] == sides and pl)
        for p in paths(init.node):
            if p.ret is RAISE:
                for g, pol, k in p.guards:
                    op, l, r, pl = norm_compare(g, pol)
                    ok = ok or (op == "==" and [l, r] == sides and not pl)
        rep.check(R, ok, init.site(), init.fq, f"asserts {a}.space == {b}.space (compared as Spaces)", "no such assertion", f"{cname}: no order-sensitive space assertion")
    sp = repo.cls("problem.spaces.space.Space")
    eq = sp.methods.get("__eq__")
    good = eq is not None and any(isinstance(c, ast.Call) and dump(c.func) == "OrderedDict.__eq__" for c in ast.walk(eq.node))
    if eq is not None:
        rep.saw(eq)
    rep.check(R, good, eq.site() if eq else sp.module.relpath, sp.fq + ".__eq__", "Space equality is OrderedDict equality (order-sensitive)", "another comparison", "Space.__eq__")


def r12_box_dtype(repo: Repo, rep):
    R = rep.rule("R-C18-12", "the tensor a bounding_box returns does not take its dtype from user-supplied shape data (`dtype=center.dtype`): integer shape values would truncate the bounds", floor=10,
                 why="bounds computed in floating point and cast to an integer dtype are rounded toward zero: the box no longer encloses the set")
    n = 0
    for mname, m in repo.modules.items():
        if ".problem.domains." not in mname:
            continue
        for ci in m.classes.values():
            fi = ci.methods.get("bounding_box")
            if fi is None:
                continue
            n += 1
            rep.saw(fi)
            bad = [dump(k.value) for c in ast.walk(fi.node) if isinstance(c, ast.Call) for k in c.keywords if k.arg == "dtype" and isinstance(k.value, ast.Attribute) and k.value.attr == "dtype"]
            bad += [dump(c)[:50] for c in ast.walk(fi.node) if isinstance(c, ast.Call) and isinstance(c.func, ast.Attribute) and c.func.attr in ("to", "type", "type_as") and c.args
                    and isinstance(c.args[0], ast.Attribute) and c.args[0].attr == "dtype"]
            rep.check(R, not bad, fi.site(), fi.fq, "no dtype inherited from shape data", str(bad), f"{ci.name}: dtype {bad}")
    if n == 0:
        rep.undecided(R, "src/torchphysics/problem/domains", "-", "bounding_box methods", "none found")


def r13_user_box_order(repo: Repo, rep):
    R = rep.rule("R-C18-13", "a user-supplied box (set_bounding_box) is stored as given - a list in the order of the product's space - never re-assembled in another order", floor=1,
                 why="flattening a per-variable mapping in the caller's insertion order reports the t-interval for an x-axis")
    ci = repo.cls("problem.domains.domainoperations.product.ProductDomain")
    fi = ci.methods.get("set_bounding_box")
    if fi is None:
        raise AnalysisError("ProductDomain.set_bounding_box vanished")
    rep.saw(fi)
    prm = fi.params[1]
    rebinds = [n for n in ast.walk(fi.node) if isinstance(n, (ast.Assign, ast.AugAssign)) for t in (n.targets if isinstance(n, ast.Assign) else [n.target]) if isinstance(t, ast.Name) and t.id == prm]
    stores = [n for n in ast.walk(fi.node) if isinstance(n, ast.Assign) and any(dump(t) == "self.bounds" for t in n.targets)]
    if not stores:
        rep.violation(R, fi.site(), fi.fq, "self.bounds = bounds", "no store", "no store")
        return
    for st in stores:
        direct = dump(st.value) == prm
        if direct and not rebinds:
            rep.ok(R, fi.site(st), fi.fq, "the given list is stored unchanged", dump(st))
            continue
        srcs = rebinds if direct else [st]
        verdicts = []
        for rb in srcs:
            v = rb.value
            gens = [g for c in ast.walk(v) if isinstance(c, (ast.ListComp, ast.GeneratorExp)) for g in c.generators]
            over_space = bool(gens) and dump(gens[0].iter) in ("self.space", "self.space.keys()", "self.space.variables", "list(self.space.keys())", "list(self.space)")
            over_arg = any(dump(g.iter).startswith(prm) for g in gens) or any(isinstance(c, ast.Call) and isinstance(c.func, ast.Attribute) and c.func.attr in ("values", "items") and dump(c.func.value) == prm for c in ast.walk(v))
            verdicts.append((over_space, over_arg, dump(rb)[:90]))
        if any(a and not s for s, a, t in verdicts):
            t = next(t for s, a, t in verdicts if a and not s)
            rep.violation(R, fi.site(st), fi.fq, "bounds assembled in the order of self.space", f"assembled in the caller's order: {t}", f"re-assembled: {t}")
        elif all(s for s, a, t in verdicts):
            rep.ok(R, fi.site(st), fi.fq, "bounds assembled by iterating self.space", verdicts[0][2])
        else:
            rep.undecided(R, fi.site(st), fi.fq, "stored bounds recognisable as the given list or as assembled in space order", verdicts[0][2])


def r14_point_box(repo: Repo, rep):
    R = rep.rule("R-C18-14", "the box of a Point lists, per axis in space order, [p_i - tol, p_i + tol] - for coordinates given as a number, a list or a tensor "
                 "(partial evaluation of Point.bounding_box)", floor=3,
                 why="`cat((p - tol, p + tol))` is [x-, y-, x+, y+]: for two or more axes the entries are read as [x_min, x_max, y_min, y_max] and the box no longer contains the point")
    from ..absdom.listeval import Evaluator, NotEval, Opaque, Vec1, UNKNOWN
    from ..absdom.poly import RF
    ci = repo.cls(f"{DOM}.domain0D.point.Point")
    fi = ci.methods.get("bounding_box")
    if fi is None:
        raise AnalysisError("Point.bounding_box vanished")
    rep.saw(fi)
    tol = RF.atom("tol")

    def run_case(fun, dim):
        def on_call(e, name, args, kws, ev, f):
            if name == "callable":
                return False
            if name.startswith("self._") and name.split(".")[-1] in ci.methods and args is not None:
                h = ci.methods[name.split(".")[-1]]
                rep.saw(h)
                env = {"self": Opaque("self")}
                env.update(zip(h.params[1:], args))
                env.update({k: v for k, v in kws.items() if k in h.params})
                for prm, d in zip(h.params[len(h.params) - len(h.node.args.defaults):], h.node.args.defaults):
                    env.setdefault(prm, ev.ev(d, f))
                fr2 = Evaluator(None, on_call).run(h.node.body, env, attrs=dict(f.attrs))
                if not fr2.returned or fr2.ret is UNKNOWN:
                    raise NotEval(f"helper {name}")
                return fr2.ret
            return None
        attrs = {"self.point.fun": fun, "self.bounding_box_tol": tol, "self.space.dim": dim, "self.dim": 0}
        return Evaluator(None, on_call).run(fi.node.body, {"self": Opaque("self"), "params": Opaque("params"), "device": "cpu"}, attrs=attrs).ret
    cases = [("a number", RF.atom("p0"), 1), ("a list of 2", [RF.atom("p0"), RF.atom("p1")], 2), ("a list of 3", [RF.atom("p0"), RF.atom("p1"), RF.atom("p2")], 3),
             ("a tensor of 2", Vec1([RF.atom("p0"), RF.atom("p1")]), 2), ("a tensor of 3", Vec1([RF.atom("p0"), RF.atom("p1"), RF.atom("p2")]), 3)]
    for label, fun, dim in cases:
        got = run_case(fun, dim)
        want = [x for i in range(dim) for x in (RF.atom(f"p{i}") - tol, RF.atom(f"p{i}") + tol)]
        text = f"coordinates given as {label}: [p_i - tol, p_i + tol] per axis"
        if not isinstance(got, list) or got is UNKNOWN:
            rep.undecided(R, fi.site(), fi.fq, text + " (evaluable)", repr(got)[:80])
            continue
        gl = [g if isinstance(g, RF) else RF.const(g) if isinstance(g, (int, float)) else g for g in got]
        rep.check(R, len(gl) == len(want) and all(isinstance(a, RF) and a == b for a, b in zip(gl, want)), fi.site(), fi.fq, text, f"{[repr(g) for g in gl]}", f"{label}: {[repr(g) for g in gl]}")


def r16_layout_of_every_reader(repo: Repo, rep):
    R = rep.rule("R-C18-16", "every reader of a bounding box addresses it as [min_1, max_1, min_2, max_2, ..]: entries by constants, 2*i / 2*i + 1, strides ::2 / 1::2 or pairs 2*i : 2*i + 2 - "
                 "never as two halves [:k] / [k:] (the layout [mins.., maxs..])", floor=12,
                 why="a reader that splits the box into a lower and an upper corner compares x with (x_min, x_max) and y with (y_min, y_max): pre-filters, strata and plots built on it lie outside the domain")

    def even_form(e):
        # constants, or arithmetic that contains a literal factor 2 (2 * i, 2 * i + 1, i * 2 + 2): the pair of one axis
        if e is None:
            return True
        if isinstance(e, ast.Constant) and isinstance(e.value, int):
            return True
        return any(isinstance(n, ast.BinOp) and isinstance(n.op, (ast.Mult, ast.LShift)) and any(isinstance(c, ast.Constant) and c.value in (1, 2) for c in (n.left, n.right)) for n in ast.walk(e))
    n_seen = 0
    for fi in repo.all_functions():
        if "/utils/plotting/" in fi.module.relpath or not fi.module.relpath.startswith("src/"):
            continue
        names = set()
        for n in ast.walk(fi.node):
            if isinstance(n, ast.Assign) and isinstance(n.value, ast.Call) and isinstance(n.value.func, ast.Attribute) and n.value.func.attr == "bounding_box":
                names |= {t.id for t in n.targets if isinstance(t, ast.Name)}
        for _ in range(3):  # the box shifted / scaled as a whole is still a box: `centred = bounds - pivot`
            for n in ast.walk(fi.node):
                if isinstance(n, ast.Assign) and isinstance(n.value, ast.BinOp) and isinstance(n.value.op, (ast.Add, ast.Sub, ast.Mult, ast.Div)) \
                        and any(isinstance(x, ast.Name) and x.id in names for x in (n.value.left, n.value.right)):
                    names |= {t.id for t in n.targets if isinstance(t, ast.Name)}
        for n in ast.walk(fi.node):
            if not isinstance(n, ast.Subscript):
                continue
            b = n.value
            if not ((isinstance(b, ast.Name) and b.id in names) or (isinstance(b, ast.Call) and isinstance(b.func, ast.Attribute) and b.func.attr == "bounding_box")):
                continue
            if isinstance(n.ctx, ast.Store):
                continue
            rep.saw(fi)
            n_seen += 1
            last = n.slice.elts[-1] if isinstance(n.slice, ast.Tuple) and n.slice.elts else n.slice
            ok = True
            if isinstance(last, ast.Slice):
                stride = last.step is not None and not (isinstance(last.step, ast.Constant) and last.step.value in (1, None))
                if not stride:
                    ok = even_form(last.lower) and even_form(last.upper)
            rep.check(R, ok, fi.site(n), fi.fq, "the box is read entry-wise / pair-wise / with stride 2", dump(n), f"{dump(n)}")
    if n_seen == 0:
        raise AnalysisError("no reader of a bounding box found")


def r17_box_for_the_given_rows(repo: Repo, rep):
    R = rep.rule("R-C18-17", "a bounding_box that asks another domain for its box hands the parameter rows it was given on to it; a domain whose shape is a geometry object "
                 "(mesh / polygon attribute) reads the box from that object when asked, not from a copy taken at construction", floor=10,
                 why="the box of boundary(t) without t is evaluated on the defaults (or fails): not the box of the rows the caller samples; a box stored at construction goes stale when the public mesh is rescaled")
    dom = repo.cls("problem.domains.domain.Domain")
    for ci in repo.subclasses(dom, strict=False):
        fi = ci.methods.get("bounding_box")
        if fi is None:
            continue
        pn = fi.params[1] if len(fi.params) > 1 else None
        carried = {pn}  # names computed from the given rows (replicated, joined with sampled values ..)
        for _ in range(4):
            for n in ast.walk(fi.node):
                if isinstance(n, ast.Assign) and any(isinstance(x, ast.Name) and x.id in carried for x in ast.walk(n.value)):
                    carried |= {x.id for t in n.targets for x in ast.walk(t) if isinstance(x, ast.Name)}
        for c in ast.walk(fi.node):
            if isinstance(c, ast.Call) and isinstance(c.func, ast.Attribute) and c.func.attr == "bounding_box" and pn is not None:
                rep.saw(fi)
                given = list(c.args[:1]) + [k.value for k in c.keywords if k.arg == "params"]
                ok = any(isinstance(x, ast.Name) and x.id in carried for g in given for x in ast.walk(g))
                rep.check(R, ok, fi.site(c), fi.fq, f"`{dump(c.func)}` receives the caller's `{pn}`", dump(c)[:90], dump(c)[:90])
        init = ci.methods.get("__init__")
        geo = sorted({t.attr for n in ast.walk(init.node) if isinstance(n, ast.Assign) for t in n.targets
                      if isinstance(t, ast.Attribute) and dump(t.value) == "self" and t.attr in ("mesh", "polygon")}) if init is not None else []
        if geo:
            rep.saw(fi)
            reads = {x.attr for x in ast.walk(fi.node) if isinstance(x, ast.Attribute) and dump(x.value) == "self"}
            rep.check(R, bool(set(geo) & reads), fi.site(), fi.fq, f"the box is read from the live geometry self.{geo[0]}", f"reads self.{sorted(reads)}", f"box from {sorted(reads)}")


def r15_lhs_per_row_per_axis(repo: Repo, rep):
    R = rep.rule("R-C18-15", "Latin-hypercube proposals: the box is evaluated for EVERY parameter row (unconditionally, inside the per-row loop, with that row's parameters) and "
                 "every axis draws its OWN permutation of the strata (randperm inside the per-axis loop)", floor=2,
                 why="a box kept from the first row never proposes in the rest of a larger later domain; one permutation shared by all axes puts every proposal on the diagonal cells of the box")
    from ..util import parent_map
    ci = repo.cls("problem.samplers.random_samplers.LHSSampler")
    sp, cr = ci.methods.get("_sample_points"), ci.methods.get("_create_lhs_in_bounding_box")
    if sp is None or cr is None:
        raise AnalysisError("LHSSampler._sample_points / _create_lhs_in_bounding_box vanished")
    rep.saw(sp), rep.saw(cr)
    pm = parent_map(sp.node)
    calls = [c for c in ast.walk(sp.node) if isinstance(c, ast.Call) and isinstance(c.func, ast.Attribute) and c.func.attr == "bounding_box"]
    if not calls:
        rep.undecided(R, sp.site(), sp.fq, "the box of the domain is evaluated", "no bounding_box call")
    for c in calls:
        chain, q = [], pm.get(id(c))
        while q is not None and q is not sp.node:
            chain.append(q)
            q = pm.get(id(q))
        in_loop = any(isinstance(x, (ast.For, ast.While)) for x in chain)
        guarded = [dump(x.test)[:40] for x in chain if isinstance(x, (ast.If, ast.IfExp))]
        prm = kwarg(c, "params", 0)
        row = prm is not None and any(isinstance(a, ast.Assign) and any(dump(t) == dump(prm) for t in a.targets) and isinstance(a.value, (ast.IfExp, ast.Subscript)) and "params[" in dump(a.value)
                                      for a in ast.walk(sp.node))
        if not row and prm is not None:
            # the loop variable itself: `for row_params in <rows>` where <rows> yields params[i,] (a generator / list bound before the loop, possibly under an if / else)
            for lp in ast.walk(sp.node):
                if isinstance(lp, ast.For) and dump(lp.target) == dump(prm):
                    srcs = [lp.iter] + [a.value for a in ast.walk(sp.node) if isinstance(lp.iter, ast.Name) and isinstance(a, ast.Assign) and any(dump(t) == lp.iter.id for t in a.targets)]
                    row = row or any("params[" in dump(x) for x in srcs)
        rep.check(R, in_loop and not guarded and row, sp.site(c), sp.fq, "bounding_box(<this row's parameters>) evaluated in every pass of the per-row loop",
                  f"in loop: {in_loop}, under conditions {guarded}, parameters `{dump(prm) if prm is not None else None}`", f"box call loop={in_loop} guards={guarded}")
    pm2 = parent_map(cr.node)
    perms = [c for c in ast.walk(cr.node) if isinstance(c, ast.Call) and (attr_chain(c.func) or "").endswith("randperm")]
    if not perms:
        rep.undecided(R, cr.site(), cr.fq, "a permutation of the strata", "no randperm call")
    for c in perms:
        q, depth = pm2.get(id(c)), 0
        while q is not None and q is not cr.node:
            if isinstance(q, (ast.For, ast.While)) or isinstance(q, (ast.ListComp, ast.GeneratorExp)):
                depth += 1
            q = pm2.get(id(q))
        rep.check(R, depth >= 1, cr.site(c), cr.fq, "randperm is drawn inside the loop over the axes", f"drawn at loop depth {depth}: one order of the strata for all axes", f"randperm at depth {depth}")


def run(repo: Repo, rep):
    from .c17 import r1_roundtrip  # the box of an evaluated domain is the box of the same set: every constructor argument (pivot!) is carried over by __call__
    r1_roundtrip(repo, rep)
    r11_same_space_operands(repo, rep)
    r12_box_dtype(repo, rep)
    r13_user_box_order(repo, rep)
    r14_point_box(repo, rep)
    r15_lhs_per_row_per_axis(repo, rep)
    r16_layout_of_every_reader(repo, rep)
    r17_box_for_the_given_rows(repo, rep)
    r10_membership_within_box(repo, rep)
    r9_no_rounding(repo, rep)
    r1_r2_primitives(repo, rep)
    r3_lattice(repo, rep)
    r4_r6_motions(repo, rep)
    r5_consumers(repo, rep)
    r7_signatures(repo, rep)
    from .c10 import r7_no_param_cache  # a cached box is returned for later, different parameter rows
    r7_no_param_cache(repo, rep)
    from .c08 import r1_sanitiser  # the normalisation layer must see the columns in its domain's order
    r1_sanitiser(repo, rep)
    from .c17 import r5_point_data  # the box of a partially evaluated product is the box of the Point that replaced the fixed factor: coordinates in space order
    r5_point_data(repo, rep)
    from .c13 import r2_r3_mapping, r5_copy_on_partial  # boxes evaluate the shape functions: supplied values win over defaults; evaluated copies keep their own fixed values
    r2_r3_mapping(repo, rep)
    r5_copy_on_partial(repo, rep)


_CI = "src/torchphysics/problem/domains/domain2D/circle.py"
_PA = "src/torchphysics/problem/domains/domain2D/parallelogram.py"
_TR = "src/torchphysics/problem/domains/domain2D/triangle.py"
_U = "src/torchphysics/problem/domains/domainoperations/union.py"
_I = "src/torchphysics/problem/domains/domainoperations/intersection.py"
_P = "src/torchphysics/problem/domains/domainoperations/product.py"
_M = "src/torchphysics/models/model.py"
_RS = "src/torchphysics/problem/samplers/random_samplers.py"
_IV = "src/torchphysics/problem/domains/domain1D/interval.py"
MUTANTS = [
    dict(id="C18-M60", file=_M, old="        for i in range(domain.space.dim):  # one entry per axis of the box", new="        for i in range(domain.dim):", rule="R-C18-5", what="one axis short for boundary domains (the repaired defect)"),
    dict(id="C18-M1", file=_CI, old="            i_min = torch.min(center[:, i] - radius)\n            i_max = torch.max(center[:, i] + radius)\n            bounds.append(i_min.item())\n            bounds.append(i_max.item())",
         new="            i_min = torch.min(center[:, i] - radius)\n            i_max = torch.max(center[:, i] + radius)\n            bounds.append(i_max.item())\n            bounds.append(i_min.item())", rule="R-C18-1", what="min/max swapped per axis"),
    dict(id="C18-M2", file=_PA, old="            for corner in [origin, corner_1, corner_2, corner_3]:", new="            for corner in [origin, corner_1, corner_2]:", rule="R-C18-2", what="fourth corner dropped"),
    dict(id="C18-M3", file=_U, old="            bounds.append(max([bounds_a[2 * i + 1], bounds_b[2 * i + 1]]))\n        return torch.tensor(bounds, device=device)\n\n    def sample_random_uniform",
         new="            bounds.append(min([bounds_a[2 * i + 1], bounds_b[2 * i + 1]]))\n        return torch.tensor(bounds, device=device)\n\n    def sample_random_uniform", rule="R-C18-3", what="union upper = min"),
    dict(id="C18-M4", file=_P, old="            bounds_a = torch.cat((bounds_a, bounds_b))\n        else:", new="            bounds_a = torch.cat((bounds_b, bounds_a))\n        else:", rule="R-C18-3", what="product order swapped"),
    dict(id="C18-M5", file=_M, old="        mins = box[::2]\n        maxs = box[1::2]", new="        mins = box[1::2]\n        maxs = box[::2]", rule="R-C18-5", what="consumer reads maxima as minima"),
    dict(id="C18-M6", file=_CI, old="            i_min = torch.min(center[:, i] - radius)", new="            i_min = torch.min(center[:, i])", rule="R-C18-1", what="radius not subtracted"),
    dict(id="C18-M7", file=_IV, old="        return torch.stack((torch.min(lb), torch.max(ub)), dim=0)", new="        return torch.stack((torch.max(lb), torch.max(ub)), dim=0)", rule="R-C18-1", what="lower end uses max over rows"),
    dict(id="C18-M8", file=_RS, old="                bounding_box[2 * i],\n                bounding_box[2 * i + 1],", new="                bounding_box[i],\n                bounding_box[i + 1],", rule="R-C18-5", what="LHS reads the wrong entries"),
    dict(id="C18-M9", file=_PA, old="        corner_3 = corner_1 + corner_2 - origin\n        bounds = []", new="        corner_3 = corner_1 + corner_2\n        bounds = []", rule="R-C18-2", what="fourth corner without origin correction"),
    dict(id="C18-M10", file=_P, old="            bounds_a = torch.cat((bounds_a, bounds_b))\n        else:  # we have to sample", new="            bounds_a = torch.cat((bounds_a, bounds_b))\n            self.bounds = bounds_a\n        else:  # we have to sample", rule="R-C10-7", what="parameter-dependent box cached"),
]
TWINS = [
    dict(id="C18-T1", file=_PA, old="            for corner in [origin, corner_1, corner_2, corner_3]:", new="            for corner in [corner_3, corner_2, origin, corner_1]:", what="corners in another order"),
    dict(id="C18-T2", file=_CI, old="            i_min = torch.min(center[:, i] - radius)\n            i_max = torch.max(center[:, i] + radius)\n            bounds.append(i_min.item())\n            bounds.append(i_max.item())",
         new="            lower = center[:, i] - radius\n            upper = radius + center[:, i]\n            bounds.append(lower.min().item())\n            bounds.append(upper.max().item())", what="method-form reductions, commuted sum"),
]

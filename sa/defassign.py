"""G-DEF — definite assignment: a local read on a path where it is unassigned can only
raise UnboundLocalError.  Branches are exact; loops are assumed to run at least once
(policy recorded in the evidence); names bound by comprehensions / lambdas are scoped."""
from __future__ import annotations

import ast
import builtins
from typing import List, Set, Tuple

from .flow import RAISE, Walker
from .repo import AnalysisError, FuncInfo

BUILTINS = set(dir(builtins))


def local_names(fn: ast.FunctionDef) -> Set[str]:
    out: Set[str] = set()
    declared_global: Set[str] = set()

    class V(ast.NodeVisitor):
        def visit_FunctionDef(self, node):
            if node is fn:
                self.generic_visit(node)
            else:
                out.add(node.name)

        visit_AsyncFunctionDef = visit_FunctionDef

        def visit_ClassDef(self, node):
            out.add(node.name)

        def visit_Lambda(self, node):
            pass

        def visit_ListComp(self, node):
            for g in node.generators:
                self.visit(g.iter)

        visit_SetComp = visit_GeneratorExp = visit_DictComp = visit_ListComp

        def visit_Name(self, node):
            if isinstance(node.ctx, (ast.Store, ast.Del)):
                out.add(node.id)

        def visit_Global(self, node):
            declared_global.update(node.names)

        visit_Nonlocal = visit_Global

        def visit_Import(self, node):
            for a in node.names:
                out.add((a.asname or a.name).split(".")[0])

        def visit_ImportFrom(self, node):
            for a in node.names:
                out.add(a.asname or a.name)

        def visit_ExceptHandler(self, node):
            if node.name:
                out.add(node.name)
            self.generic_visit(node)

    V().visit(fn)
    return out - declared_global


def _free_reads(expr: ast.AST) -> Set[str]:
    """names read in expr that are not bound by an enclosing comprehension/lambda inside expr"""
    reads: Set[str] = set()

    def rec(node, bound):
        if isinstance(node, ast.Name):
            if isinstance(node.ctx, ast.Load) and node.id not in bound:
                reads.add(node.id)
            return
        if isinstance(node, (ast.ListComp, ast.SetComp, ast.GeneratorExp, ast.DictComp)):
            b = set(bound)
            for i, g in enumerate(node.generators):
                rec(g.iter, b if i else bound)
                for n in ast.walk(g.target):
                    if isinstance(n, ast.Name):
                        b.add(n.id)
                for c in g.ifs:
                    rec(c, b)
            if isinstance(node, ast.DictComp):
                rec(node.key, b), rec(node.value, b)
            else:
                rec(node.elt, b)
            return
        if isinstance(node, ast.Lambda):
            a = node.args
            b = set(bound) | {x.arg for x in a.posonlyargs + a.args + a.kwonlyargs}
            if a.vararg:
                b.add(a.vararg.arg)
            if a.kwarg:
                b.add(a.kwarg.arg)
            rec(node.body, b)
            return
        if isinstance(node, ast.NamedExpr):
            rec(node.value, bound)
            return
        for c in ast.iter_child_nodes(node):
            rec(c, bound)

    rec(expr, set())
    return reads


def unassigned_reads(fi: FuncInfo) -> List[Tuple[str, int]]:
    """[(name, line)] of locals read before assignment on some path (loops run >= once)"""
    fn = fi.node
    a = fn.args
    params = {x.arg for x in a.posonlyargs + a.args + a.kwonlyargs}
    if a.vararg:
        params.add(a.vararg.arg)
    if a.kwarg:
        params.add(a.kwarg.arg)
    locs = local_names(fn) - params
    # names bound only by nested def / class / import statements are not tracked by the walker
    # (a use before such a statement is not reported; stated limitation)
    stmt_bound = set()
    for n in ast.walk(fn):
        if n is not fn and isinstance(n, (ast.FunctionDef, ast.AsyncFunctionDef, ast.ClassDef)):
            stmt_bound.add(n.name)
        elif isinstance(n, ast.Import):
            stmt_bound.update((a.asname or a.name).split(".")[0] for a in n.names)
        elif isinstance(n, ast.ImportFrom):
            stmt_bound.update(a.asname or a.name for a in n.names)
    locs -= stmt_bound
    if not locs:
        return []
    found = {}
    try:
        ps = Walker(fn, max_paths=2048).run()
    except AnalysisError:
        return [("<too many paths>", fn.lineno)]
    for p in ps:
        for e in p.events:
            for ex in (e.value, e.target):
                if ex is None:
                    continue
                for name in _free_reads(ex):
                    if name in locs and name not in p.loopvars and name not in BUILTINS:
                        # the walker substitutes every assigned local; what is left was never assigned on this path
                        found.setdefault(name, getattr(e.node, "lineno", fn.lineno))
    return sorted(found.items())

"""Canonical form of the parsed sources (applied once, when the Repo is loaded).

Rules compare *expressions*; the same computation can be spelled in several ways
that PyTorch defines as identical.  This pass rewrites every such spelling to one
canonical spelling, so a rule sees the same tree whichever one the author chose:

  D1  tensor method <-> torch function duals
        reductions / element-wise maths  : x.F(a..)        -> torch.F(x, a..)
        shape operations                 : torch.G(x, a..) -> x.G(a..)
  D2  operator functions                 : torch.add(a, b) -> a + b   (sub, mul, div, neg, pow, lt, le, gt, ge, eq, ne);
                                           x.pow(n) -> x ** n ; torch.square(x) -> x ** 2 ; x.lt(y).. -> x < y
  D3  x.new_zeros(s) / new_ones / new_empty / new_full -> torch.zeros(s, dtype=x.dtype, device=x.device) ..
  D4  None-indexing                      : x[None], x[None, :], x[:, None], x[..., None] -> x.unsqueeze(k)
  D5  guarded counts                     : `n if n > 0 else 1`, `n if n else 1`, `n or 1`, `max(n, 1)` -> max(1, n)
                                           (n a len(..) call); constant-first order of builtin max/min
  D6  redundant containers               : torch.cat(tuple) -> torch.cat(list) for cat / stack / column_stack / hstack / vstack
  D7  torch.Tensor.F(x, ..)              -> like D1
  D8  a @ b                              -> torch.matmul(a, b)
  D9  dict(m) / dict(m, **n) / dict(a=x) -> {**m} / {**m, **n} / {'a': x}
  D10 torch.where(logical_not(m) | ~m, x, y) -> torch.where(m, y, x)
  D11 x.dim() / x.ndim / x.ndimension()  -> len(x.shape) ; x.mT -> x.transpose(-1, -2)
  D13 divmod(a, b)[0] / [1]              -> a // b / a % b
  D14 [a, b][k]                          -> the k-th element (literal sequence, constant k)
  D16 x.reshape((a, b)) -> x.reshape(a, b) (view / expand / repeat / permute / tile alike); D17 X[a:b][k] -> X[a + k]
  D18 aliases of torch sub-modules (`nn`, `F`) -> `torch.nn`, `torch.nn.functional`; D19 `x.add_(y)` as a statement -> `x += y` (sub_/mul_/div_ alike)
  D14b (a, b, c)[1:] -> (b, c); D20 f(*(a, b)) -> f(a, b); D21 [v for v in xs] -> list(xs); D24 tuple([a, b]) -> (a, b); D25 (a, b) + (c, d) -> (a, b, c, d); D26 torch.nonzero(m, as_tuple=True) -> torch.where(m); D22 y = x.mul_(a).add_(b) -> x *= a; x += b; y = x
  D15 [*xs]                              -> list(xs)
  D12 X.m(a, q=b) -> X.m(a, b) when q is the next positional parameter of every definition of method m in the package

Only spelling is touched: every rewrite is an identity of the PyTorch / Python
semantics for tensor receivers.  Receivers that are imported modules, `self`
method calls or `super()` are never rewritten.  Line numbers are preserved.
"""
from __future__ import annotations

import ast
import copy
from typing import Optional, Set

# method form -> function form
FUNC_FORM = {
    "sum", "mean", "max", "min", "abs", "sqrt", "square", "clamp", "all", "any", "isclose", "logical_not", "logical_and",
    "logical_or", "sin", "cos", "tan", "exp", "log", "prod", "cumsum", "flip", "maximum", "minimum", "norm", "argmax", "argmin",
    "index_select", "repeat_interleave", "arccos", "acos", "arcsin", "asin", "atan2", "arctan2", "floor", "ceil", "round", "sign", "std", "var",
    "amax", "amin", "aminmax", "nonzero", "count_nonzero", "isnan", "isfinite", "cross", "dot", "matmul", "bmm", "numel",
}
# function form -> method form
METH_FORM = {"narrow", "unsqueeze", "squeeze", "reshape", "flatten", "permute", "transpose", "detach", "clone", "view", "expand", "tile", "t", "contiguous", "unflatten", "movedim"}
BINOPS = {"add": ast.Add, "subtract": ast.Sub, "sub": ast.Sub, "multiply": ast.Mult, "mul": ast.Mult, "divide": ast.Div, "div": ast.Div, "true_divide": ast.Div, "pow": ast.Pow}
CMPOPS = {"lt": ast.Lt, "le": ast.LtE, "gt": ast.Gt, "ge": ast.GtE, "eq": ast.Eq, "ne": ast.NotEq, "less": ast.Lt, "less_equal": ast.LtE, "greater": ast.Gt, "greater_equal": ast.GtE}
NEW_CTORS = {"new_zeros": "zeros", "new_ones": "ones", "new_empty": "empty", "new_full": "full"}
SEQ_ARG = {"cat", "concat", "concatenate", "stack", "column_stack", "hstack", "vstack", "row_stack"}
# receivers that are never tensors
NON_TENSOR_ROOTS = {"torch", "np", "numpy", "math", "nn", "F", "functional", "scipy", "shapely", "trimesh", "plt", "os", "sys", "warnings", "itertools", "functools", "random", "builtins", "self", "cls", "super", "pl", "logging", "time", "copy", "inspect", "numbers", "abc", "matplotlib", "anim", "colors", "cm"}


def attr_chain_(node: ast.AST) -> Optional[str]:
    parts = []
    while isinstance(node, ast.Attribute):
        parts.append(node.attr)
        node = node.value
    if isinstance(node, ast.Name):
        parts.append(node.id)
        return ".".join(reversed(parts))
    return None


def _loop_built(seq: ast.AST) -> bool:
    """a list literal that stands for the elements a loop / comprehension produces (the walker's one-iteration form): not a fixed-length literal"""
    return any(getattr(x, "_iter_of", None) for x in getattr(seq, "elts", []))


def _chain_root(node: ast.AST) -> Optional[str]:
    while isinstance(node, ast.Attribute):
        node = node.value
    if isinstance(node, ast.Name):
        return node.id
    return None


def _torch_fn(call: ast.Call) -> Optional[str]:
    """'F' for torch.F(..) / torch.Tensor.F(..)"""
    f = call.func
    if isinstance(f, ast.Attribute) and isinstance(f.value, ast.Name) and f.value.id == "torch":
        return f.attr
    if isinstance(f, ast.Attribute) and isinstance(f.value, ast.Attribute) and isinstance(f.value.value, ast.Name) and f.value.value.id == "torch" and f.value.attr == "Tensor":
        return f.attr
    return None


def _torch_attr(name: str, like: ast.AST) -> ast.Attribute:
    return ast.copy_location(ast.Attribute(value=ast.copy_location(ast.Name(id="torch", ctx=ast.Load()), like), attr=name, ctx=ast.Load()), like)


def _is_len(n: ast.AST) -> bool:
    return isinstance(n, ast.Call) and isinstance(n.func, ast.Name) and n.func.id == "len" and len(n.args) == 1


def _is_const(n: ast.AST, v) -> bool:
    return isinstance(n, ast.Constant) and type(n.value) in (int, float) and n.value == v


INPLACE_METHODS = {"add_": ast.Add, "sub_": ast.Sub, "mul_": ast.Mult, "div_": ast.Div}


class Canon(ast.NodeTransformer):
    def __init__(self, module_names: Set[str], aliases=None):
        self.modules = set(module_names) | NON_TENSOR_ROOTS
        self.aliases = aliases or {}  # local name -> dotted torch module it stands for (nn -> torch.nn, F -> torch.nn.functional)
        self.count = 0

    def visit_Expr(self, node: ast.Expr):
        self.generic_visit(node)
        # D19 x.add_(y) as a statement -> x += y (sub_, mul_, div_ alike; no alpha / rounding_mode)
        c = node.value
        if isinstance(c, ast.Call) and isinstance(c.func, ast.Attribute) and c.func.attr in INPLACE_METHODS and len(c.args) == 1 and not c.keywords \
                and isinstance(c.func.value, (ast.Name, ast.Attribute, ast.Subscript)) and not isinstance(c.args[0], ast.Starred):
            import copy as _copy
            tgt = _copy.deepcopy(c.func.value)
            for n in ast.walk(tgt):
                if hasattr(n, "ctx"):
                    n.ctx = ast.Load()
            tgt.ctx = ast.Store()
            self.count += 1
            return ast.copy_location(ast.AugAssign(target=tgt, op=INPLACE_METHODS[c.func.attr](), value=c.args[0]), node)
        return node

    def _inplace_chain(self, value):
        """x.mul_(a).add_(b) rooted at a local name -> (x, [(Mult, a), (Add, b)]); None otherwise"""
        links = []
        cur = value
        while isinstance(cur, ast.Call) and isinstance(cur.func, ast.Attribute) and cur.func.attr in INPLACE_METHODS and len(cur.args) == 1 and not cur.keywords \
                and not isinstance(cur.args[0], ast.Starred):
            links.append((INPLACE_METHODS[cur.func.attr], cur.args[0], cur))
            cur = cur.func.value
        if not links or not isinstance(cur, ast.Name):
            return None
        root = cur.id
        if any(isinstance(n, ast.Name) and n.id == root for _, a, _ in links for n in ast.walk(a)):
            return None  # an argument reads the receiver: the order of evaluation matters
        return cur, list(reversed(links))

    def _split_inplace(self, node, value, rebuild):
        got = self._inplace_chain(value)
        if got is None:
            return node
        root, links = got
        out = []
        for op, arg, call in links:
            out.append(ast.copy_location(ast.AugAssign(target=ast.copy_location(ast.Name(id=root.id, ctx=ast.Store()), call), op=op(), value=arg), node))
        out.append(rebuild(ast.copy_location(ast.Name(id=root.id, ctx=ast.Load()), node)))
        self.count += 1
        return out

    def visit_Assign(self, node: ast.Assign):
        self.generic_visit(node)
        # D22 y = x.mul_(a).add_(b) -> x *= a; x += b; y = x (the value of an in-place method is its receiver)
        return self._split_inplace(node, node.value, lambda v: ast.copy_location(ast.Assign(targets=node.targets, value=v), node))

    def visit_Return(self, node: ast.Return):
        self.generic_visit(node)
        if node.value is None:
            return node
        return self._split_inplace(node, node.value, lambda v: ast.copy_location(ast.Return(value=v), node))

    def visit_Name(self, node: ast.Name):
        # D18 aliases of torch sub-modules -> the dotted name
        if isinstance(node.ctx, ast.Load) and node.id in self.aliases:
            parts = self.aliases[node.id].split(".")
            new = ast.Name(id=parts[0], ctx=ast.Load())
            for a in parts[1:]:
                new = ast.Attribute(value=new, attr=a, ctx=ast.Load())
                ast.copy_location(new, node)
            self.count += 1
            return ast.copy_location(new, node)
        return node

    def _hit(self, new, old):
        self.count += 1
        for a in ("_def_id", "_iter_of", "_iter_src", "_iter_epoch", "_phi", "_tuple_elt", "_tuple_len"):
            if hasattr(old, a) and not hasattr(new, a):
                setattr(new, a, getattr(old, a))
        return ast.copy_location(new, old)

    # ------------------------------------------------------------ calls
    def visit_Call(self, node: ast.Call):
        self.generic_visit(node)
        # D26 torch.nonzero(m, as_tuple=True) / m.nonzero(as_tuple=True) -> torch.where(m) (documented as identical)
        if len(node.keywords) == 1 and node.keywords[0].arg == "as_tuple" and isinstance(node.keywords[0].value, ast.Constant) and node.keywords[0].value.value is True \
                and isinstance(node.func, ast.Attribute) and node.func.attr == "nonzero":
            if isinstance(node.func.value, ast.Name) and node.func.value.id == "torch" and len(node.args) == 1:
                return self._hit(ast.Call(func=_torch_attr("where", node), args=[node.args[0]], keywords=[]), node)
            if not node.args and not (isinstance(node.func.value, ast.Name) and node.func.value.id == "torch"):
                return self._hit(ast.Call(func=_torch_attr("where", node), args=[node.func.value], keywords=[]), node)
        # D24 tuple([a, b]) -> (a, b) and list((a, b)) -> [a, b] for displays of fixed length
        if isinstance(node.func, ast.Name) and node.func.id in ("tuple", "list") and len(node.args) == 1 and not node.keywords \
                and isinstance(node.args[0], (ast.List, ast.Tuple)) and not _loop_built(node.args[0]) and not any(isinstance(x, ast.Starred) for x in node.args[0].elts):
            elts = node.args[0].elts
            new = ast.Tuple(elts=elts, ctx=ast.Load()) if node.func.id == "tuple" else ast.List(elts=elts, ctx=ast.Load())
            return self._hit(new, node)
        # D20 f(*(a, b)) -> f(a, b)
        if any(isinstance(a, ast.Starred) and isinstance(a.value, (ast.List, ast.Tuple)) and not _loop_built(a.value) and not any(isinstance(x, ast.Starred) for x in a.value.elts) for a in node.args):
            new_args = []
            for a in node.args:
                if isinstance(a, ast.Starred) and isinstance(a.value, (ast.List, ast.Tuple)) and not _loop_built(a.value) and not any(isinstance(x, ast.Starred) for x in a.value.elts):
                    new_args.extend(a.value.elts)
                else:
                    new_args.append(a)
            node.args = new_args
            self.count += 1
        has_star = any(isinstance(a, ast.Starred) for a in node.args) or any(k.arg is None for k in node.keywords)
        tf = _torch_fn(node)
        f = node.func
        # D2 operator functions (function form)
        if tf in BINOPS and len(node.args) == 2 and not node.keywords and not has_star:
            return self._hit(ast.BinOp(left=node.args[0], op=BINOPS[tf](), right=node.args[1]), node)
        if tf in CMPOPS and len(node.args) == 2 and not node.keywords and not has_star:
            return self._hit(ast.Compare(left=node.args[0], ops=[CMPOPS[tf]()], comparators=[node.args[1]]), node)
        if tf in ("neg", "negative") and len(node.args) == 1 and not node.keywords and not has_star:
            return self._hit(ast.UnaryOp(op=ast.USub(), operand=node.args[0]), node)
        if tf == "square" and len(node.args) == 1 and not node.keywords and not has_star:
            return self._hit(ast.BinOp(left=node.args[0], op=ast.Pow(), right=ast.Constant(value=2)), node)
        # D1 function -> method for shape operations
        if tf in METH_FORM and node.args and not isinstance(node.args[0], ast.Starred) and not any(k.arg in ("input", "self") for k in node.keywords):
            recv = node.args[0]
            new = ast.Call(func=ast.copy_location(ast.Attribute(value=recv, attr=tf, ctx=ast.Load()), node), args=node.args[1:], keywords=node.keywords)
            return self._hit(new, node)
        # D10 where(not m, x, y) -> where(m, y, x)
        if tf == "where" and len(node.args) == 3 and not node.keywords and not has_star:
            m = node.args[0]
            inner = None
            if isinstance(m, ast.Call) and _torch_fn(m) == "logical_not" and len(m.args) == 1 and not m.keywords:
                inner = m.args[0]
            elif isinstance(m, ast.UnaryOp) and isinstance(m.op, ast.Invert):
                inner = m.operand
            if inner is not None:
                node.args = [inner, node.args[2], node.args[1]]
                self.count += 1
        # D6 tuple -> list argument of sequence combinators
        if tf in SEQ_ARG and node.args and isinstance(node.args[0], ast.Tuple):
            node.args[0] = ast.copy_location(ast.List(elts=node.args[0].elts, ctx=ast.Load()), node.args[0])
            self.count += 1
        # method forms
        if isinstance(f, ast.Attribute) and tf is None:
            root = _chain_root(f.value)
            recv_is_module = root in self.modules and not isinstance(f.value, (ast.Call, ast.Subscript))
            # `self.x.sum()` : attribute of self is a value, not a module; `self.sum()` is a method of the class
            if root in ("self", "cls") and isinstance(f.value, ast.Attribute):
                recv_is_module = False
            if isinstance(f.value, ast.Call) and isinstance(f.value.func, ast.Name) and f.value.func.id == "super":
                recv_is_module = True
            if not recv_is_module:
                m = f.attr
                if m in ("dim", "ndimension") and not node.args and not node.keywords:
                    shp = ast.copy_location(ast.Attribute(value=f.value, attr="shape", ctx=ast.Load()), node)
                    return self._hit(ast.Call(func=ast.copy_location(ast.Name(id="len", ctx=ast.Load()), node), args=[shp], keywords=[]), node)
                if m in FUNC_FORM:
                    new = ast.Call(func=_torch_attr(m, node), args=[f.value] + node.args, keywords=node.keywords)
                    return self._hit(new, node)
                if m == "pow" and len(node.args) == 1 and not node.keywords and not has_star:
                    return self._hit(ast.BinOp(left=f.value, op=ast.Pow(), right=node.args[0]), node)
                if m in ("lt", "le", "gt", "ge", "ne") and len(node.args) == 1 and not node.keywords and not has_star:
                    return self._hit(ast.Compare(left=f.value, ops=[CMPOPS[m]()], comparators=[node.args[0]]), node)
                if m == "neg" and not node.args and not node.keywords:
                    return self._hit(ast.UnaryOp(op=ast.USub(), operand=f.value), node)
                if m in NEW_CTORS and node.args and not has_star:
                    kws = list(node.keywords)
                    have = {k.arg for k in kws}
                    for a in ("dtype", "device"):
                        if a not in have:
                            kws.append(ast.keyword(arg=a, value=ast.copy_location(ast.Attribute(value=copy.deepcopy(f.value), attr=a, ctx=ast.Load()), node)))
                    new = ast.Call(func=_torch_attr(NEW_CTORS[m], node), args=node.args, keywords=kws)
                    return self._hit(new, node)
        # D16 x.reshape((a, b)) -> x.reshape(a, b) (also view / expand / repeat / permute / tile)
        if isinstance(f, ast.Attribute) and f.attr in ("reshape", "view", "expand", "repeat", "permute", "tile") and len(node.args) == 1 and isinstance(node.args[0], (ast.Tuple, ast.List)) \
                and not node.keywords and node.args[0].elts:
            node.args = list(node.args[0].elts)
            self.count += 1
        # D9 dict(m) -> {**m}; dict(m, **n) -> {**m, **n}; dict(a=x) -> {'a': x}
        if isinstance(f, ast.Name) and f.id == "dict" and len(node.args) <= 1 and not any(isinstance(a, ast.Starred) for a in node.args) and (node.args or node.keywords):
            if not (node.args and isinstance(node.args[0], (ast.List, ast.Tuple, ast.ListComp, ast.GeneratorExp))) and not (node.args and isinstance(node.args[0], ast.Call) and attr_chain_(node.args[0].func) == "zip"):
                keys = [None] * len(node.args) + [None if k.arg is None else ast.Constant(value=k.arg) for k in node.keywords]
                vals = list(node.args) + [k.value for k in node.keywords]
                return self._hit(ast.Dict(keys=keys, values=vals), node)
        # D5 builtin max/min: constant first; max(n, 1)
        if isinstance(f, ast.Name) and f.id in ("max", "min") and len(node.args) == 2 and not node.keywords and not has_star:
            a, b = node.args
            if isinstance(b, ast.Constant) and not isinstance(a, ast.Constant):
                node.args = [b, a]
                self.count += 1
        return node

    def visit_Attribute(self, node: ast.Attribute):
        self.generic_visit(node)
        if node.attr == "ndim" and isinstance(node.ctx, ast.Load):
            shp = ast.copy_location(ast.Attribute(value=node.value, attr="shape", ctx=ast.Load()), node)
            return self._hit(ast.Call(func=ast.copy_location(ast.Name(id="len", ctx=ast.Load()), node), args=[shp], keywords=[]), node)
        if node.attr == "mT" and isinstance(node.ctx, ast.Load):
            return self._hit(ast.Call(func=ast.copy_location(ast.Attribute(value=node.value, attr="transpose", ctx=ast.Load()), node),
                                      args=[ast.UnaryOp(op=ast.USub(), operand=ast.Constant(value=1)), ast.UnaryOp(op=ast.USub(), operand=ast.Constant(value=2))], keywords=[]), node)
        return node

    # ------------------------------------------------------------ D5 guarded counts
    def visit_IfExp(self, node: ast.IfExp):
        self.generic_visit(node)
        n = node.body
        if _is_len(n) and _is_const(node.orelse, 1):
            t = node.test
            d = ast.dump(n)
            ok = ast.dump(t) == d
            if isinstance(t, ast.Compare) and len(t.ops) == 1 and ast.dump(t.left) == d:
                c = t.comparators[0]
                ok = ok or (isinstance(t.ops[0], ast.Gt) and _is_const(c, 0)) or (isinstance(t.ops[0], ast.GtE) and _is_const(c, 1)) or (isinstance(t.ops[0], ast.NotEq) and _is_const(c, 0))
            if ok:
                new = ast.Call(func=ast.copy_location(ast.Name(id="max", ctx=ast.Load()), node), args=[ast.copy_location(ast.Constant(value=1), node), n], keywords=[])
                return self._hit(new, node)
        return node

    def visit_BoolOp(self, node: ast.BoolOp):
        self.generic_visit(node)
        if isinstance(node.op, ast.Or) and len(node.values) == 2 and _is_len(node.values[0]) and _is_const(node.values[1], 1):
            new = ast.Call(func=ast.copy_location(ast.Name(id="max", ctx=ast.Load()), node), args=[ast.copy_location(ast.Constant(value=1), node), node.values[0]], keywords=[])
            return self._hit(new, node)
        return node

    def visit_List(self, node: ast.List):
        self.generic_visit(node)
        # D15 [*xs] -> list(xs)
        if isinstance(node.ctx, ast.Load) and len(node.elts) == 1 and isinstance(node.elts[0], ast.Starred):
            return self._hit(ast.Call(func=ast.copy_location(ast.Name(id="list", ctx=ast.Load()), node), args=[node.elts[0].value], keywords=[]), node)
        return node

    def visit_ListComp(self, node: ast.ListComp):
        self.generic_visit(node)
        # D21 the identity comprehension [v for v in xs] -> list(xs)
        if len(node.generators) == 1:
            g = node.generators[0]
            if not g.ifs and not g.is_async and isinstance(g.target, ast.Name) and isinstance(node.elt, ast.Name) and node.elt.id == g.target.id:
                return self._hit(ast.Call(func=ast.copy_location(ast.Name(id="list", ctx=ast.Load()), node), args=[g.iter], keywords=[]), node)
        return node

    def visit_BinOp(self, node: ast.BinOp):
        self.generic_visit(node)
        if isinstance(node.op, ast.MatMult):
            return self._hit(ast.Call(func=_torch_attr("matmul", node), args=[node.left, node.right], keywords=[]), node)
        # D25 (a, b) + (c, d) -> (a, b, c, d) for displays of the same kind without starred entries
        if isinstance(node.op, ast.Add) and type(node.left) is type(node.right) and isinstance(node.left, (ast.Tuple, ast.List)) \
                and not any(isinstance(x, ast.Starred) for x in node.left.elts + node.right.elts) and not _loop_built(node.left) and not _loop_built(node.right):
            return self._hit(type(node.left)(elts=list(node.left.elts) + list(node.right.elts), ctx=ast.Load()), node)
        return node

    # ------------------------------------------------------------ D4 None-indexing
    def visit_Subscript(self, node: ast.Subscript):
        self.generic_visit(node)
        if not isinstance(node.ctx, ast.Load):
            return node
        sl = node.slice
        # D13 divmod(a, b)[0] / [1] -> a // b / a % b
        if isinstance(node.value, ast.Call) and isinstance(node.value.func, ast.Name) and node.value.func.id == "divmod" and len(node.value.args) == 2 and not node.value.keywords \
                and isinstance(sl, ast.Constant) and sl.value in (0, 1):
            a, b = node.value.args
            return self._hit(ast.BinOp(left=a, op=ast.FloorDiv() if sl.value == 0 else ast.Mod(), right=b), node)
        # D17 X[a:b][k] -> X[a + k] (constant non-negative a, k; no step)
        if isinstance(sl, ast.Constant) and isinstance(sl.value, int) and not isinstance(sl.value, bool) and sl.value >= 0 and isinstance(node.value, ast.Subscript) \
                and isinstance(node.value.slice, ast.Slice) and node.value.slice.step is None and isinstance(node.ctx, ast.Load):
            lo = node.value.slice.lower
            if lo is None or (isinstance(lo, ast.Constant) and isinstance(lo.value, int) and lo.value >= 0):
                base = (lo.value if lo is not None else 0) + sl.value
                new = ast.Subscript(value=node.value.value, slice=ast.copy_location(ast.Constant(value=base), node), ctx=ast.Load())
                return self._hit(new, node)
        # D14b (a, b, c)[1:] -> (b, c) (constant slice of a literal sequence)
        if isinstance(node.value, (ast.List, ast.Tuple)) and isinstance(sl, ast.Slice) and isinstance(node.ctx, ast.Load) and not _loop_built(node.value) and not any(isinstance(x, ast.Starred) for x in node.value.elts):
            def cval(b):
                if b is None:
                    return True, None
                if isinstance(b, ast.Constant) and isinstance(b.value, int) and not isinstance(b.value, bool):
                    return True, b.value
                if isinstance(b, ast.UnaryOp) and isinstance(b.op, ast.USub) and isinstance(b.operand, ast.Constant) and isinstance(b.operand.value, int):
                    return True, -b.operand.value
                return False, None
            (o1, lo), (o2, hi), (o3, st) = cval(sl.lower), cval(sl.upper), cval(sl.step)
            if o1 and o2 and o3 and st != 0:
                elts = node.value.elts[slice(lo, hi, st)]
                new = type(node.value)(elts=list(elts), ctx=ast.Load())
                return self._hit(new, node)
        # D14 [a, b][0] -> a (constant index into a literal sequence without starred elements)
        if isinstance(node.value, (ast.List, ast.Tuple)) and isinstance(sl, ast.Constant) and isinstance(sl.value, int) and not isinstance(sl.value, bool) and not _loop_built(node.value) \
                and not any(isinstance(x, ast.Starred) for x in node.value.elts) and -len(node.value.elts) <= sl.value < len(node.value.elts):
            return self._hit(node.value.elts[sl.value], node)
        elts = list(sl.elts) if isinstance(sl, ast.Tuple) else [sl]

        def full(e):
            return isinstance(e, ast.Slice) and e.lower is None and e.upper is None and e.step is None

        def none(e):
            return isinstance(e, ast.Constant) and e.value is None

        def ell(e):
            return isinstance(e, ast.Constant) and e.value is Ellipsis
        if sum(1 for e in elts if none(e)) != 1 or not all(full(e) or none(e) or ell(e) for e in elts) or sum(1 for e in elts if ell(e)) > 1:
            return node
        k = [i for i, e in enumerate(elts) if none(e)][0]
        ells = [i for i, e in enumerate(elts) if ell(e)]
        if ells and ells[0] < k:
            # x[..., None, :, :]  ->  position counted from the end
            axis = -(len(elts) - k)
        else:
            axis = k
        val = ast.UnaryOp(op=ast.USub(), operand=ast.Constant(value=-axis)) if axis < 0 else ast.Constant(value=axis)
        new = ast.Call(func=ast.copy_location(ast.Attribute(value=node.value, attr="unsqueeze", ctx=ast.Load()), node), args=[ast.copy_location(val, node)], keywords=[])
        return self._hit(new, node)


def canonicalise(tree: ast.Module) -> int:
    """in place; returns the number of rewrites"""
    mods = set()
    aliases = {}
    for n in ast.walk(tree):
        if isinstance(n, ast.Import):
            for al in n.names:
                mods.add((al.asname or al.name).split(".")[0])
                if al.asname and al.name.startswith("torch.") and al.asname != al.name:
                    aliases[al.asname] = al.name  # import torch.nn as nn
        elif isinstance(n, ast.ImportFrom) and n.level == 0 and n.module and (n.module == "torch" or n.module.startswith("torch.")):
            for al in n.names:
                if al.name in ("nn", "functional", "fft", "linalg", "distributions", "autograd", "optim") and al.name != "*":
                    aliases[al.asname or al.name] = f"{n.module}.{al.name}"  # from torch import nn
    # a local / parameter of the same name would shadow the alias: leave such modules alone
    stored = {x.id for x in ast.walk(tree) if isinstance(x, ast.Name) and isinstance(x.ctx, ast.Store)} | {a.arg for x in ast.walk(tree) if isinstance(x, ast.arguments) for a in x.args + x.kwonlyargs}
    aliases = {k: v for k, v in aliases.items() if k not in stored}
    c = Canon(mods, aliases)
    c.visit(tree)
    ast.fix_missing_locations(tree)
    return c.count


_POST = None


def recanon(expr: ast.AST) -> ast.AST:
    """canonical form of an expression that was assembled by substitution (patterns can form across former temporaries)"""
    global _POST
    if _POST is None:
        _POST = Canon(set())
    out = _POST.visit(expr)
    ast.fix_missing_locations(out)
    return out


# ---------------------------------------------------------------- D12 argument passing form of repository methods
def api_signatures(trees) -> dict:
    """method name -> positional parameter names (without self/cls) shared by every definition of that name in the package
    (the common prefix when definitions differ in length); names defined with conflicting orders are left out"""
    sigs = {}
    for tree in trees:
        for cls in ast.walk(tree):
            if not isinstance(cls, ast.ClassDef):
                continue
            for fn in cls.body:
                if not isinstance(fn, (ast.FunctionDef, ast.AsyncFunctionDef)) or (fn.name.startswith("__") and fn.name != "__call__"):
                    continue
                a = fn.args
                names = [x.arg for x in a.posonlyargs + a.args]
                deco = {ast.unparse(d) for d in fn.decorator_list}
                if "staticmethod" not in deco and names:
                    names = names[1:]
                sigs.setdefault(fn.name, []).append(names)
    # constructors: class name -> parameters of __init__ (class names defined once)
    ctor = {}
    for tree in trees:
        for cls in ast.walk(tree):
            if isinstance(cls, ast.ClassDef):
                for fn in cls.body:
                    if isinstance(fn, ast.FunctionDef) and fn.name == "__init__":
                        ctor.setdefault(cls.name, []).append([x.arg for x in fn.args.posonlyargs + fn.args.args][1:])
    out = {}
    for cname, defs in ctor.items():
        if len(defs) == 1 and defs[0] and cname not in sigs:
            out["<ctor>" + cname] = defs[0]
    for name, defs in sigs.items():
        n = min(len(d) for d in defs)
        pre = []
        for i in range(n):
            col = {d[i] for d in defs}
            if len(col) != 1:
                break
            pre.append(defs[0][i])
        if pre:
            out[name] = pre
    return out


class ArgForm(ast.NodeTransformer):
    """X.m(a, q=b) -> X.m(a, b) when q is m's next positional parameter: positional wherever there is no gap"""

    def __init__(self, sigs):
        self.sigs = sigs
        self.count = 0

    def visit_Call(self, node: ast.Call):
        self.generic_visit(node)
        f = node.func
        if any(isinstance(a, ast.Starred) for a in node.args):
            return node
        if isinstance(f, ast.Name) and "<ctor>" + f.id in self.sigs:
            sig = self.sigs["<ctor>" + f.id]
        elif isinstance(f, ast.Attribute) and f.attr in self.sigs:
            sig = self.sigs[f.attr]
        else:
            return node
        kws = {k.arg: k for k in node.keywords if k.arg is not None}
        i = len(node.args)
        moved = False
        while i < len(sig) and sig[i] in kws:
            node.args.append(kws[sig[i]].value)
            node.keywords.remove(kws[sig[i]])
            i += 1
            moved = True
        if moved:
            self.count += 1
        return node


def tuple_returning(trees) -> Set[str]:
    """names of package functions / methods every definition of which returns a tuple display on every `return`
    (a constant index of such a call is an element of the returned tuple, however it is spelled)"""
    ok, bad = set(), set()
    for tree in trees:
        for fn in ast.walk(tree):
            if not isinstance(fn, (ast.FunctionDef, ast.AsyncFunctionDef)):
                continue
            rets = []

            def collect(n):
                for c in ast.iter_child_nodes(n):
                    if isinstance(c, (ast.FunctionDef, ast.AsyncFunctionDef, ast.Lambda, ast.ClassDef)):
                        continue
                    if isinstance(c, ast.Return):
                        rets.append(c)
                    collect(c)
            collect(fn)
            if rets and all(isinstance(r.value, ast.Tuple) and len(r.value.elts) >= 2 for r in rets):
                ok.add(fn.name)
            else:
                bad.add(fn.name)
    return ok - bad


def argument_form(trees) -> int:
    sigs = api_signatures(trees)
    t = ArgForm(sigs)
    for tree in trees:
        t.visit(tree)
    # D23 f(...)[k] with a constant k on a tuple-returning package function is the k-th element of its result - the same value as
    # the k-th target of a tuple unpacking of that call (the walker's `_tuple_elt` form)
    tr = tuple_returning(trees)
    for tree in trees:
        for n in ast.walk(tree):
            if isinstance(n, ast.Subscript) and isinstance(n.slice, ast.Constant) and isinstance(n.slice.value, int) and not isinstance(n.slice.value, bool) \
                    and isinstance(n.value, ast.Call) and isinstance(n.ctx, ast.Load):
                f = n.value.func
                name = f.attr if isinstance(f, ast.Attribute) else f.id if isinstance(f, ast.Name) else None
                if name in tr and n.slice.value >= 0:
                    n._tuple_elt = True  # type: ignore[attr-defined]
                    t.count += 1
    return t.count

"""Obligations, verdicts, known findings, evidence and exit codes."""
from __future__ import annotations

import json
import os
import time
from dataclasses import dataclass, field
from typing import Dict, List, Optional

from .repo import digest_of

VERIF = os.path.dirname(os.path.dirname(os.path.abspath(__file__)))
OK, VIOLATION, UNDECIDED = "OK", "VIOLATION", "UNDECIDED"


@dataclass
class Obligation:
    rule: str
    site: str  # file:line
    construct: str  # qualified construct (function / class / call site)
    what: str  # what was required
    verdict: str
    detail: str = ""  # abstract value computed / reason
    offending: str = ""  # normalised offending sub-expression (violations)

    @property
    def digest(self) -> str:
        return digest_of(self.offending)


@dataclass
class RuleInfo:
    rid: str
    text: str
    floor: int = 0
    why: str = ""
    count: int = 0


class Report:
    def __init__(self, prop: str, tier: str = "quick", quiet: bool = False):
        self.prop = prop
        self.tier = tier
        self.quiet = quiet
        self.rules: Dict[str, RuleInfo] = {}
        self.obs: List[Obligation] = []
        self.notes: List[str] = []
        self.analysed: Dict[str, set] = {"files": set(), "functions": set()}
        self.extra: Dict[str, object] = {}
        self.t0 = time.time()

    # ------------------------------------------------------------ recording
    def rule(self, rid: str, text: str, floor: int = 0, why: str = ""):
        self.rules[rid] = RuleInfo(rid, text, floor, why)
        return rid

    def saw(self, fi):
        """Record that a function was analysed."""
        if fi is None:
            return
        self.analysed["files"].add(fi.relpath)
        self.analysed["functions"].add(fi.fq)

    def _add(self, rule, verdict, site, construct, what, detail="", offending=""):
        if rule not in self.rules:
            raise KeyError(f"rule {rule} not declared")
        self.rules[rule].count += 1
        ob = Obligation(rule, site, construct, what, verdict, detail, offending)
        self.obs.append(ob)
        return ob

    def ok(self, rule, site, construct, what, detail=""):
        return self._add(rule, OK, site, construct, what, detail)

    def violation(self, rule, site, construct, what, detail="", offending=""):
        off = offending or detail
        for o in self.obs:  # the same violation reached on several paths is one violation
            if o.verdict == VIOLATION and (o.rule, o.construct, o.what, o.offending) == (rule, construct, what, off):
                return o
        return self._add(rule, VIOLATION, site, construct, what, detail, off)

    def undecided(self, rule, site, construct, what, detail=""):
        return self._add(rule, UNDECIDED, site, construct, what, detail)

    def check(self, rule, cond, site, construct, what, detail="", offending=""):
        if cond:
            return self.ok(rule, site, construct, what, detail)
        return self.violation(rule, site, construct, what, detail, offending)

    def note(self, text):
        self.notes.append(text)

    # --------------------------------------------------------------- verdict
    def verdict_set(self):
        """Comparable summary used by the mutant/twin self-validation."""
        return sorted(
            (o.rule, o.construct, o.verdict, o.digest if o.verdict == VIOLATION else "")
            for o in self.obs
            if o.verdict != OK
        )


def load_known_findings() -> List[dict]:
    path = os.path.join(VERIF, "known_findings.json")
    if not os.path.exists(path):
        return []
    with open(path) as fh:
        data = json.load(fh)
    return data.get("findings", [])


def match_finding(ob: Obligation, prop: str, findings: List[dict]) -> Optional[dict]:
    for f in findings:
        if (
            (f.get("property") == prop or prop in f.get("also", []))
            and f.get("rule") == ob.rule
            and f.get("construct") == ob.construct
            and f.get("digest") == ob.digest
        ):
            return f
    return None


def finish(rep: Report, seed: int = 0, explanation: str = "", assumptions: List[str] = None,
           trusted: List[str] = None, write: bool = True) -> int:
    """Print the per-rule table, match known findings, write evidence and replay
    files, and return the process exit code."""
    findings = load_known_findings()
    # instance floors
    for r in rep.rules.values():
        if r.count < r.floor:
            rep.undecided(
                r.rid, "-", "-", f"at least {r.floor} instances",
                f"only {r.count} instance(s) found: anchor vanished or idiom not recognised",
            )
    viol, known, undec = [], [], []
    for ob in rep.obs:
        if ob.verdict == VIOLATION:
            f = match_finding(ob, rep.prop, findings)
            (known if f else viol).append((ob, f))
        elif ob.verdict == UNDECIDED:
            undec.append(ob)
    out = []
    for r in rep.rules.values():
        obs = [o for o in rep.obs if o.rule == r.rid]
        out.append(
            f"{r.rid:<10} instances={len(obs):<4} ok={sum(o.verdict == OK for o in obs):<4} "
            f"violation={sum(o.verdict == VIOLATION for o in obs):<3} "
            f"undecided={sum(o.verdict == UNDECIDED for o in obs):<3} {r.text}"
        )
    for ob, f in known:
        out.append(f"KNOWN-FINDING: property={rep.prop} {ob.rule} {ob.construct}: {f.get('what', ob.what)}")
    replay_dir = os.path.join(VERIF, "evidence", "replay")
    replays = []
    for k, (ob, _) in enumerate(viol):
        path = os.path.join(replay_dir, f"{rep.prop}-{k}.json")
        if write:
            os.makedirs(replay_dir, exist_ok=True)
            with open(path, "w") as fh:
                json.dump(
                    {
                        "property": rep.prop, "rule": ob.rule, "rule_text": rep.rules[ob.rule].text,
                        "site": ob.site, "construct": ob.construct, "required": ob.what,
                        "found": ob.detail, "offending": ob.offending, "digest": ob.digest,
                    },
                    fh, indent=1,
                )
        replays.append(path)
        out.append(f"  {ob.rule} {ob.site} {ob.construct}: required: {ob.what}; found: {ob.detail}")
        out.append(f"VIOLATION property={rep.prop} replay={path}")
    for ob in undec:
        out.append(f"UNDECIDED property={rep.prop} {ob.rule} {ob.site} {ob.construct}: {ob.what}; {ob.detail}")
    code = 1 if viol else (2 if undec else 0)
    wall = time.time() - rep.t0
    if write:
        write_evidence(rep, seed, explanation, assumptions or [], trusted or [], wall, len(viol), known, undec)
    if not rep.quiet:
        print("\n".join(out))
        print(
            f"[{rep.prop} {rep.tier}] obligations={len(rep.obs)} discharged={sum(o.verdict == OK for o in rep.obs)} "
            f"known={len(known)} violations={len(viol)} undecided={len(undec)} "
            f"functions={len(rep.analysed['functions'])} wall={wall:.2f}s exit={code}"
        )
    return code


def write_evidence(rep, seed, explanation, assumptions, trusted, wall, nviol, known, undec):
    obs = rep.obs
    oks = [o for o in obs if o.verdict == OK]
    distinct = len({(o.rule, o.construct, o.site, o.what) for o in obs})
    per_rule = {}
    for r in rep.rules.values():
        ro = [o for o in obs if o.rule == r.rid]
        per_rule[r.rid] = {
            "rule": r.text, "why_necessary": r.why, "floor": r.floor, "instances": len(ro),
            "ok": sum(o.verdict == OK for o in ro),
            "violation": sum(o.verdict == VIOLATION for o in ro),
            "undecided": sum(o.verdict == UNDECIDED for o in ro),
        }
    samples = []
    seen_rules = set()
    for o in obs:
        if o.rule in seen_rules and o.verdict == OK:
            continue
        seen_rules.add(o.rule)
        samples.append(
            {"rule": o.rule, "site": o.site, "construct": o.construct, "required": o.what,
             "found": o.detail[:400], "verdict": o.verdict}
        )
    ev = {
        "property_id": rep.prop,
        "tier": rep.tier,
        "seed": seed,
        "level": "other",
        "coverage": {
            "explanation": explanation
            or "static analysis of /repo's working tree (ast; class hierarchy, def-use expansion, abstract domains); "
               "each obligation is one rule instance at one construct",
            "obligations": len(obs),
            "discharged": len(oks),
            "evaluations": len(obs),
            "distinct_nontrivial": distinct,
            "rule": "one obligation per (rule, construct, site, requirement); all are non-trivial: each is a "
                    "necessary condition of the property stated in DESIGN.md §4; distinct = distinct tuples",
            "checker_cmd": f"./check {rep.prop} --tier {rep.tier}",
            "trusted_base": trusted or ["CPython ast module", "reference tables in /verif/sa/props (DESIGN.md §4)"],
            "samples": samples[:60],
            "per_rule": per_rule,
            "files_analysed": sorted(rep.analysed["files"]),
            "functions_analysed": len(rep.analysed["functions"]),
            "functions": sorted(rep.analysed["functions"])[:400],
            "known_findings_matched": [
                {"rule": o.rule, "construct": o.construct, "digest": o.digest} for o, _ in known
            ],
            "undecided": [
                {"rule": o.rule, "construct": o.construct, "site": o.site, "detail": o.detail} for o in undec
            ],
            "notes": rep.notes,
            "exhaustive": False,
            **rep.extra,
        },
        "assumptions": assumptions,
        "wall_s": round(wall, 3),
        "violations": nviol,
    }
    path = os.path.join(VERIF, "evidence", f"{rep.prop}.json")
    os.makedirs(os.path.dirname(path), exist_ok=True)
    tmp = path + ".tmp"
    with open(tmp, "w") as fh:
        json.dump(ev, fh, indent=1, sort_keys=False)
    os.replace(tmp, path)

#!/usr/bin/env python3
"""Re-run the property's check on every stored seeded change (throw-away worktrees of /repo HEAD, VERIF_REPO) and
refresh check_exit_on_patched_tree / rules_reporting in seeded/<id>/meta.json; same for refactors/<id>/meta.json (all 20 checks)."""
import glob, json, os, re, shutil, subprocess, sys
from concurrent.futures import ThreadPoolExecutor
HERE = os.path.dirname(os.path.dirname(os.path.abspath(__file__)))
ROOT = "/tmp/refreshwt"


def sh(cmd, cwd=None, env=None):
    e = dict(os.environ)
    if env:
        e.update(env)
    r = subprocess.run(cmd, cwd=cwd, env=e, capture_output=True, text=True)
    return r.returncode, r.stdout + r.stderr


def one(d):
    name = os.path.basename(d)
    wt = os.path.join(ROOT, name)
    sh(["git", "-C", "/repo", "worktree", "remove", "--force", wt])
    shutil.rmtree(wt, ignore_errors=True)
    sh(["git", "-C", "/repo", "worktree", "add", "--detach", wt, "HEAD"])
    try:
        rc, out = sh(["git", "apply", os.path.join(d, "patch.diff")], cwd=wt)
        if rc != 0:
            return name, None
        mp = os.path.join(d, "meta.json")
        try:
            meta = json.load(open(mp))
        except Exception:
            meta = {}
        if "/seeded/" in d:
            prop = re.match(r"(C\d\d)", name).group(1)
            rc, out = sh([os.path.join(HERE, "check"), prop, "--no-write"], cwd=HERE, env={"VERIF_REPO": wt})
            meta["check_exit_on_patched_tree"] = rc
            meta["rules_reporting"] = sorted({l.split()[0] for l in out.splitlines() if l.startswith(("  R-", "  G-"))})
        else:
            res = {}
            for i in range(1, 21):
                p = f"C{i:02d}"
                rc, out = sh([os.path.join(HERE, "check"), p, "--no-write"], cwd=HERE, env={"VERIF_REPO": wt})
                if rc != 0:
                    res[p] = rc
            if not isinstance(meta, dict):
                meta = {"note": str(meta)}
            meta["checks_not_silent"] = res
        json.dump(meta, open(mp, "w"), indent=1)
        return name, meta.get("check_exit_on_patched_tree", meta.get("checks_not_silent"))
    finally:
        sh(["git", "-C", "/repo", "worktree", "remove", "--force", wt])
        shutil.rmtree(wt, ignore_errors=True)


def main():
    os.makedirs(ROOT, exist_ok=True)
    dirs = sorted(glob.glob(os.path.join(HERE, "seeded", "*"))) + sorted(glob.glob(os.path.join(HERE, "refactors", "*")))
    dirs = [d for d in dirs if os.path.exists(os.path.join(d, "patch.diff")) and (len(sys.argv) < 2 or any(a in d for a in sys.argv[1:]))]
    with ThreadPoolExecutor(max_workers=8) as ex:
        for name, res in ex.map(one, dirs):
            print(name, res)
    shutil.rmtree(ROOT, ignore_errors=True)


if __name__ == "__main__":
    main()

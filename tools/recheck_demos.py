#!/usr/bin/env python3
"""tools/recheck_demos.py [--with-patch] <seed ids ...>  — development aid (never run by a check).
Runs stored demos against /repo HEAD in a scratch worktree: without the patch every demo must PASS, with --with-patch it must FAIL.
Prints the ids that do not behave as required."""
import os, subprocess, sys, tempfile, concurrent.futures as cf
with_patch = "--with-patch" in sys.argv
ids = [a for a in sys.argv[1:] if not a.startswith("--")] or sorted(os.listdir("/verif/seeded"))
PY = "/venv/bin/python"

def run(i):
    td = tempfile.mkdtemp(prefix="rd_")
    wt = td + "/w"
    subprocess.check_call(["git", "-C", "/repo", "worktree", "add", "-q", "--detach", wt, "HEAD"])
    try:
        if with_patch:
            r = subprocess.run(["git", "-C", wt, "apply", f"/verif/seeded/{i}/patch.diff"], capture_output=True, text=True)
            if r.returncode:
                return i, "PATCH DOES NOT APPLY"
        env = dict(os.environ, PYTHONPATH=wt + "/src", PYTHONDONTWRITEBYTECODE="1")
        r = subprocess.run([PY, "-m", "pytest", "-q", "-p", "no:cacheprovider", "--no-cov", "-x", f"/verif/seeded/{i}/demo.py"], cwd=wt, env=env, capture_output=True, text=True, timeout=600)
        tail = (r.stdout.strip().splitlines() or [""])[-1]
        ok = (r.returncode != 0) if with_patch else (r.returncode == 0)
        return i, None if ok else tail
    finally:
        subprocess.call(["git", "-C", "/repo", "worktree", "remove", "--force", wt])
with cf.ThreadPoolExecutor(8) as ex:
    bad = [(i, t) for i, t in ex.map(run, ids) if t]
for i, t in bad:
    print("UNEXPECTED", i, t)
print(len(ids), "demos,", len(bad), "unexpected")

#!/usr/bin/env python3
"""Regenerates /verif/MANIFEST.json from the table below (run from /verif)."""
import json, os, sys
HERE = os.path.dirname(os.path.dirname(os.path.abspath(__file__)))
sys.path.insert(0, HERE)
from sa.manifest_table import CHECKS, NOT_APPLICABLE

BASE = "cd /repo && /venv/bin/python -m pytest -ra -q -p no:cacheprovider --timeout=900 --continue-on-collection-errors"
man = {
    "version": 1,
    "setup_cmd": "true",
    "hooks": {
        "guard": "TORCHPHYSICS_VERIF",
        "enable": "no hooks: every check is a static analysis of /repo's working tree (nothing is built or run)",
        "baseline_off_cmd": BASE,
        "source_commits": [],
        "add_only": True,
    },
    "engines": [
        {
            "name": "sa",
            "path": "/verif/sa",
            "serves_properties": [c["property_id"] for c in CHECKS],
            "kind_free_text": "repository-specific static analyser on CPython ast: class hierarchy + MRO, path enumeration with def-use "
            "expansion, abstract domains (Boolean formulas by truth table, polynomial/rational normal forms, affine index forms, "
            "fact sets, effect sets, a partial evaluator that interprets the syntax tree of small functions over rule-supplied value models for stated finite instantiations); "
            "torchphysics is never imported or executed",
        }
    ],
    "checks": [],
    "notes": "Technique family: static analysis only. Exit 0 = every obligation discharged or a listed known finding; "
    "exit 1 + VIOLATION line = a definite violation not listed in known_findings.json; exit 2 = UNDECIDED/ANALYSIS-ERROR "
    "(anchor vanished or idiom outside the rule's table) - never reported as a violation. See DESIGN.md.",
    "not_applicable": NOT_APPLICABLE,
}
for c in CHECKS:
    pid = c["property_id"]
    man["checks"].append(
        {
            "property_id": pid,
            "quick_cmd": f"./check {pid} --tier quick",
            "thorough_cmd": f"./check {pid} --tier thorough",
            "evidence_file": f"/verif/evidence/{pid}.json",
            "replay_cmd_template": f"./check {pid} --replay {{path}}",
            "engine": "sa",
            "level_claimed": {"category": "other", "text": c["text"], "design_ref": c.get("design_ref", f"DESIGN.md §4 {pid}")},
            "level_note": c["note"],
            "technique": c["technique"],
        }
    )
with open(os.path.join(HERE, "MANIFEST.json"), "w") as fh:
    json.dump(man, fh, indent=1)
print("checks:", len(man["checks"]), "not_applicable:", len(NOT_APPLICABLE))

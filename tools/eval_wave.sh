#!/bin/sh
# usage: tools/eval_wave.sh /tmp/seed4 w5   -- copies finished refactorings into refactors/<Cxx>-<tag>r<k> and evaluates everything present
root=$1; tag=$2
cd /verif
for d in $root/C??; do c=$(basename $d); for k in 1 2 3; do f=$d/seed_out/refactor_$k.diff; if [ -f $f ]; then mkdir -p refactors/$c-${tag}r$k; cp $f refactors/$c-${tag}r$k/patch.diff; [ -f $d/seed_out/refactor_$k.json ] && cp $d/seed_out/refactor_$k.json refactors/$c-${tag}r$k/meta.json; fi; done; done
echo "== refactorings not silent:"
python3 tools/eval_patches.py --all-props refactors/*-${tag}r*/patch.diff 2>&1 | cut -c1-420 | grep -v "nonzero={}"
echo "== changes not reported with exit 1:"
python3 tools/eval_patches.py $root/C*/seed_out/change_*.diff 2>&1 | cut -c1-300 | grep "own=" | grep -v "own_exit=1"

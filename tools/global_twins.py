#!/usr/bin/env python3
"""Global behaviour-preserving twins of the whole package, analysed through VERIF_REPO:
  A  every source file round-tripped through ast.unparse (layout, comments, quotes, parenthesisation gone)
  B  A + every function-local variable renamed (parameters, attributes, globals, nested scopes untouched)
All 20 checks must give the same exit code on the twin as on the working tree (a development aid; not a registered command)."""
import ast
import builtins
import os
import shutil
import subprocess
import sys

SRC = "/repo/src/torchphysics"
OUT = "/tmp/global_twin"


class Rename(ast.NodeTransformer):
    def visit_FunctionDef(self, node):
        # collect simple locals of this function (not params, not names used in nested defs/lambdas/comprehensions that capture them)
        a = node.args
        params = {x.arg for x in a.posonlyargs + a.args + a.kwonlyargs}
        if a.vararg:
            params.add(a.vararg.arg)
        if a.kwarg:
            params.add(a.kwarg.arg)
        assigned, blocked = set(), set()

        class Scan(ast.NodeVisitor):
            def __init__(s):
                s.depth = 0

            def visit_FunctionDef(s, n):
                if n is node:
                    s.generic_visit(n)
                else:
                    blocked.update(x.id for x in ast.walk(n) if isinstance(x, ast.Name))
                    blocked.add(n.name)

            visit_AsyncFunctionDef = visit_FunctionDef

            def visit_Lambda(s, n):
                blocked.update(x.id for x in ast.walk(n) if isinstance(x, ast.Name))

            def visit_ClassDef(s, n):
                blocked.update(x.id for x in ast.walk(n) if isinstance(x, ast.Name))
                blocked.add(n.name)

            def visit_Name(s, n):
                if isinstance(n.ctx, (ast.Store, ast.Del)):
                    assigned.add(n.id)

            def visit_Global(s, n):
                blocked.update(n.names)

            visit_Nonlocal = visit_Global

            def visit_Import(s, n):
                blocked.update((x.asname or x.name).split(".")[0] for x in n.names)

            def visit_ImportFrom(s, n):
                blocked.update(x.asname or x.name for x in n.names)

            def visit_ExceptHandler(s, n):
                if n.name:
                    blocked.add(n.name)
                s.generic_visit(n)

            def visit_keyword(s, n):
                s.generic_visit(n)
        Scan().visit(node)
        locs = {n for n in assigned - params - blocked if not n.startswith("__") and n not in dir(builtins)}
        mapping = {n: n + "_v" for n in locs}

        class Apply(ast.NodeTransformer):
            def visit_Name(s, n):
                if n.id in mapping:
                    return ast.copy_location(ast.Name(id=mapping[n.id], ctx=n.ctx), n)
                return n

            def visit_FunctionDef(s, n):
                return n if n is not node else s.generic_visit(n)

            def visit_Lambda(s, n):
                return n

            def visit_ClassDef(s, n):
                return n
        node = Apply().visit(node)
        # nested functions handled recursively
        node.body = [self.visit(b) if isinstance(b, (ast.FunctionDef, ast.ClassDef)) else b for b in node.body]
        return node

    def visit_ClassDef(self, node):
        node.body = [self.visit(b) if isinstance(b, (ast.FunctionDef, ast.ClassDef)) else b for b in node.body]
        return node


def build(variant):
    root = os.path.join(OUT, variant)
    shutil.rmtree(root, ignore_errors=True)
    for dp, dn, fn in os.walk(SRC):
        for f in fn:
            if not f.endswith(".py"):
                continue
            src = open(os.path.join(dp, f)).read()
            tree = ast.parse(src)
            if variant == "B":
                tree.body = [Rename().visit(b) if isinstance(b, (ast.FunctionDef, ast.ClassDef)) else b for b in tree.body]
                ast.fix_missing_locations(tree)
            out = ast.unparse(tree)
            dst = os.path.join(root, "src", "torchphysics", os.path.relpath(os.path.join(dp, f), SRC))
            os.makedirs(os.path.dirname(dst), exist_ok=True)
            open(dst, "w").write(out + "\n")
    return root


def main():
    base = {}
    for i in range(1, 21):
        p = f"C{i:02d}"
        r = subprocess.run(["/verif/check", p, "--no-write"], cwd="/verif", capture_output=True, text=True)
        base[p] = (r.returncode, sum(l.startswith("KNOWN-FINDING") for l in r.stdout.splitlines()))
    for variant in ("A", "B"):
        root = build(variant)
        for i in range(1, 21):
            p = f"C{i:02d}"
            r = subprocess.run(["/verif/check", p, "--no-write"], cwd="/verif", capture_output=True, text=True, env={**os.environ, "VERIF_REPO": root})
            got = (r.returncode, sum(l.startswith("KNOWN-FINDING") for l in r.stdout.splitlines()))
            flag = "" if got == base[p] else "   <-- DIFFERS from the working tree " + str(base[p])
            print(variant, p, got, flag)
            if flag:
                for l in r.stdout.splitlines():
                    if l.startswith(("  R-", "  G-", "UNDECIDED", "ANALYSIS-ERROR")):
                        print("      ", l[:260])
    shutil.rmtree(OUT, ignore_errors=True)


if __name__ == "__main__":
    main()

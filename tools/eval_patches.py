#!/usr/bin/env python3
"""Run the checks against patched scratch worktrees (VERIF_REPO), never touching /repo.
usage: tools/eval_patches.py [--all-props] <diff> [<diff> ...]
For each diff: worktree of /repo HEAD under /tmp/evalwt, git apply, run the property's check (from the path, Cxx) or all 20,
print exit codes and the first violation/undecided lines, remove the worktree."""
import os
import re
import shutil
import subprocess
import sys
from concurrent.futures import ThreadPoolExecutor

ROOT = "/tmp/evalwt"


def sh(cmd, cwd=None, env=None):
    e = dict(os.environ)
    if env:
        e.update(env)
    r = subprocess.run(cmd, cwd=cwd, env=e, capture_output=True, text=True)
    return r.returncode, r.stdout + r.stderr


def one(arg):
    diff, all_props = arg
    diff = os.path.abspath(diff)
    m = re.search(r"(C\d\d)", diff)
    own = m.group(1) if m else None
    wid = re.sub(r"[^A-Za-z0-9]+", "_", diff)[-60:]
    wt = os.path.join(ROOT, wid)
    sh(["git", "-C", "/repo", "worktree", "remove", "--force", wt])
    shutil.rmtree(wt, ignore_errors=True)
    rc, out = sh(["git", "-C", "/repo", "worktree", "add", "--detach", wt, "HEAD"])
    lines = []
    try:
        rc, out = sh(["git", "apply", diff], cwd=wt)
        if rc != 0:
            rc, out = sh(["git", "apply", "--3way", diff], cwd=wt)
            if rc != 0:
                return diff, own, {"apply": "FAILED"}, [out[-200:]]
        props = [f"C{i:02d}" for i in range(1, 21)] if all_props else [own]
        res = {}
        for p in props:
            rc, out = sh(["/verif/check", p, "--no-write"], cwd="/verif", env={"VERIF_REPO": wt})
            res[p] = rc
            if rc != 0:
                for l in out.splitlines():
                    if l.startswith(("  R-", "  G-", "UNDECIDED", "ANALYSIS-ERROR")):
                        lines.append(f"[{p}] " + l[:330])
        return diff, own, res, lines[:8]
    finally:
        sh(["git", "-C", "/repo", "worktree", "remove", "--force", wt])
        shutil.rmtree(wt, ignore_errors=True)


def main():
    args = sys.argv[1:]
    all_props = False
    if args and args[0] == "--all-props":
        all_props = True
        args = args[1:]
    os.makedirs(ROOT, exist_ok=True)
    with ThreadPoolExecutor(max_workers=12) as ex:
        for diff, own, res, lines in ex.map(one, [(a, all_props) for a in args]):
            bad = {p: rc for p, rc in res.items() if rc != 0}
            print(f"{diff}: own={own} own_exit={res.get(own)} nonzero={bad}")
            for l in lines:
                print("     ", l)


if __name__ == "__main__":
    main()

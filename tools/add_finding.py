#!/usr/bin/env python3
"""tools/add_finding.py <replay.json> <what> <witness>   — record a triaged genuine defect (never run by a check)
   tools/add_finding.py --fixed <prop> <rule> <construct> <what> <witness>  — record a repair (uses /repo HEAD)"""
import json, subprocess, sys
KF = '/verif/known_findings.json'
kf = json.load(open(KF))
if sys.argv[1] == '--fixed':
    _, _, prop, rule, construct, what, witness = sys.argv
    c = subprocess.check_output(['git', '-C', '/repo', 'rev-parse', '--short', 'HEAD']).decode().strip()
    kf['fixed'].append({"property": prop, "rule": rule, "commit": c, "construct": construct,
                        "what": f"fixed: property={prop} {c} {what}", "witness": witness})
else:
    rp = json.load(open(sys.argv[1]))
    kf['findings'].append({"property": rp['property'], "rule": rp['rule'], "construct": rp['construct'], "digest": rp['digest'],
                           "offending": rp['offending'][:300], "what": sys.argv[2], "witness": sys.argv[3]})
json.dump(kf, open(KF, 'w'), indent=1)
print('ok', len(kf['findings']), 'findings', len(kf['fixed']), 'fixed')

#!/usr/bin/env python3
"""Apply each candidate seed patch to /repo, run the property's check, undo.
usage: tools/try_seeds.py [dir ...]   (dirs contain change_*.diff or patch.diff; property from meta or dir name)"""
import glob, json, os, re, subprocess, sys
def sh(*a, **k): return subprocess.run(a, capture_output=True, text=True, **k)
dirs = sys.argv[1:] or sorted(glob.glob('/tmp/seed/C??/seed_out')) 
for d in dirs:
    for diff in sorted(glob.glob(os.path.join(d, '*.diff'))):
        base = os.path.basename(diff)
        if 'FOREIGN' in base.upper() or base in ('x.diff',): continue
        m = re.search(r'C\d\d', d)
        prop = m.group(0)
        mj = diff.replace('change_', 'meta_').replace('.diff', '.json')
        if os.path.exists(mj):
            try: prop = json.load(open(mj)).get('property', prop)
            except Exception: pass
        assert sh('git', '-C', '/repo', 'status', '--porcelain').stdout.strip() == '', 'repo dirty'
        r = sh('git', '-C', '/repo', 'apply', diff)
        if r.returncode != 0:
            print(f'{prop} {diff}: DOES NOT APPLY: {r.stderr.strip()[:100]}'); continue
        try:
            props = [prop] + [p for p in sys.argv[1:] if re.fullmatch(r'C\d\d', p)]
            c = sh('/verif/check', prop, '--no-write', cwd='/verif')
            lines = [l for l in c.stdout.splitlines() if l.startswith(('VIOLATION', 'UNDECIDED', 'ANALYSIS-ERROR', '  R-'))]
            print(f'{prop} {os.path.relpath(diff, "/tmp/seed")}: exit={c.returncode}')
            for l in lines[:4]: print('    ', l[:230])
        finally:
            sh('git', '-C', '/repo', 'checkout', '--', '.')

#!/usr/bin/env python3
"""tools/port_transform.py <old_commit> <file> <patches...>  — development aid (never run by a check).
Re-bases corpus patches over a `fix:` commit that changed single lines of <file>: the patch is applied to <old_commit>, then the fix's own
line replacements (read from stdin as JSON [[old, new], ...]) are applied to the patched file wherever the old text still occurs, and the result is
diffed against /repo HEAD.  Reports the patches in which an old line was itself rewritten by the patch (to be ported by hand)."""
import json, os, subprocess, sys, tempfile
old, relfile = sys.argv[1], sys.argv[2]
pairs = json.load(sys.stdin)
for patch in sys.argv[3:]:
    td = tempfile.mkdtemp(prefix="pt_")
    o, n = td + "/old", td + "/new"
    subprocess.check_call(["git", "-C", "/repo", "worktree", "add", "-q", "--detach", o, old])
    subprocess.check_call(["git", "-C", "/repo", "worktree", "add", "-q", "--detach", n, "HEAD"])
    try:
        r = subprocess.run(["git", "-C", o, "apply", os.path.abspath(patch)], capture_output=True, text=True)
        if r.returncode:
            print(patch, "does not apply to", old)
            continue
        files = subprocess.check_output(["git", "-C", o, "diff", "--name-only"], text=True).split()
        missing = []
        for f in files:
            s = open(os.path.join(o, f)).read()
            if f == relfile:
                for a, b in pairs:
                    if a in s:
                        s = s.replace(a, b)
                    else:
                        missing.append(a.strip()[:50])
            open(os.path.join(n, f), "w").write(s)
        d = subprocess.check_output(["git", "-C", n, "diff"])
        open(patch, "wb").write(d)
        print(patch, "ported" + (f"  (lines rewritten by the patch itself, check by hand: {missing})" if missing else ""))
    finally:
        for w in (o, n):
            subprocess.call(["git", "-C", "/repo", "worktree", "remove", "--force", w])

#!/usr/bin/env python3
"""tools/gen_wave_prompts.py <root> [Cxx ...]  — development aid, never run by a check.

Creates one scratch git worktree of /repo HEAD per property under <root>/Cxx and writes <root>/Cxx.prompt: the
property text plus the one-line summaries of every change already stored for it (so that a fresh sub-agent, which
sees nothing of /verif, looks for other mechanisms) and the functions already covered by stored refactorings."""
import glob
import json
import os
import subprocess
import sys

root = sys.argv[1]
only = sys.argv[2:]
props = [json.loads(l) for l in open("/verif/properties.jsonl")]
os.makedirs(root, exist_ok=True)
for p in props:
    pid = p["id"]
    if only and pid not in only:
        continue
    wt = f"{root}/{pid}"
    if not os.path.isdir(wt):
        subprocess.check_call(["git", "-C", "/repo", "worktree", "add", "-q", "--detach", wt, "HEAD"])
    known = []
    for d in sorted(glob.glob(f"/verif/seeded/{pid}-*") + glob.glob(f"/verif/seeded_not_decided/{pid}-*")):
        try:
            m = json.load(open(os.path.join(d, "meta.json")))
        except Exception:
            continue
        t = (m.get("summary") or m.get("what") or "").replace("\n", " ")
        if t:
            known.append("  - " + t[:170])
    funcs = []
    for d in sorted(glob.glob(f"/verif/refactors/{pid}-*")):
        try:
            m = json.load(open(os.path.join(d, "meta.json")))
        except Exception:
            continue
        f = (m.get("function") or "").strip()
        if f:
            funcs.append(f[:80])
    a = p["anchors"]
    text = f"""You work ONLY inside the scratch git worktree {wt} (a checkout of the Python library boschresearch/torchphysics, branch-less at HEAD). Never read or write /repo or /verif, never use `git stash`, never commit, never use `pkill` / `killall` (other agents run the same commands in sibling worktrees; kill only process ids you started yourself). Python is /venv/bin/python (torch etc. installed, no network). Run the test-suite with:
  cd {wt} && PYTHONPATH={wt}/src /venv/bin/python -m pytest -q -p no:cacheprovider --no-cov -k 'not contour_animation' tests
(about 25 s, 781 tests pass on the pristine tree; always set PYTHONPATH so the worktree's sources are imported, not the installed copy).

PROPERTY {pid}: {p['title']}
{p['statement']}
Quantifier: {p['quantifier']['text']}
Anchored code: {', '.join(a['files'])}
Mechanisms: {json.dumps(a['mechanism'])}

PART A - three property-breaking changes. Produce 3 different, realistic source changes (the kind a maintainer could commit as an optimisation, clean-up, vectorisation, generalisation, bug "fix", new feature or refactoring that went subtly wrong) after which this property no longer holds for SOME inputs / histories, while the whole existing test-suite still passes. Small diffs (1-15 lines). They may touch any code the property depends on (not only the anchored functions: helpers, base classes, sibling classes, callers, utility modules). Many changes of this kind are already known; find mechanisms and places DIFFERENT from all of these:
{chr(10).join(known) if known else '  (none yet)'}
For each k in 1,2,3 write into {wt}/seed_out/: change_k.diff (output of `git diff` against HEAD; must apply to the pristine tree on its own), demo_k.py (a pytest file using only the public API that FAILS with the change and PASSES on the pristine tree, deterministic), meta_k.json with keys property, summary, why_breaks, needs_to_manifest. Verify yourself: full suite passes with the change; demo fails with it and passes without it. If you cannot find a third one that survives the suite, deliver two.

PART B - two behaviour-preserving refactorings. Produce 2 refactorings, each rewriting ONE function or method the property depends on (3-25 changed lines) the way maintainers routinely do: renamed locals, extracted / inlined temporaries or small helper methods, loop <-> comprehension, reordered independent statements, equivalent PyTorch / Python spellings (method vs function form, operators vs torch.add etc., keyword vs positional arguments), early return vs else, De Morgan, merged or split conditions, enumerate/zip/items idioms, vectorised forms that are provably bit-identical. They must be EXACTLY behaviour preserving for every input (values bitwise, dtype, device, shapes, RNG consumption order, exceptions). Prefer functions other than: {funcs}. Check equivalence with a differential script that loads the pristine source (`git show HEAD:<path>`) next to the refactored one over many inputs. Write refactor_r.diff (git diff against HEAD, applies alone to the pristine tree) and refactor_r.json (function, summary, how_checked) for r in 1,2; the full suite must pass with each.

Work on one change at a time and restore the tree (`git checkout -- .`) after saving each diff; at the end the worktree must be clean except for seed_out/. Finish with a short report (what each change / refactoring is, verification results)."""
    open(f"{root}/{pid}.prompt", "w").write(text)
    print(pid, len(known), "known changes,", len(funcs), "refactored functions")

#!/usr/bin/env python3
"""tools/port_patch.py <old_commit> <patch.diff>...  — development aid (never run by a check).
Re-bases stored corpus patches written against <old_commit> onto /repo HEAD after a `fix:` commit touched the same file:
three-way merge (git merge-file) of  HEAD:file  <-  old:file  ->  old:file + patch ; rewrites the patch in place when the merge is clean."""
import os
import subprocess
import sys
import tempfile

old = sys.argv[1]
for patch in sys.argv[2:]:
    with tempfile.TemporaryDirectory() as td:
        subprocess.check_call(["git", "-C", "/repo", "worktree", "add", "-q", "--detach", td + "/old", old])
        try:
            r = subprocess.run(["git", "-C", td + "/old", "apply", os.path.abspath(patch)], capture_output=True, text=True)
            if r.returncode != 0:
                print(patch, "does not apply to", old, r.stderr.strip()[:100])
                continue
            files = subprocess.check_output(["git", "-C", td + "/old", "diff", "--name-only"], text=True).split()
            subprocess.check_call(["git", "-C", "/repo", "worktree", "add", "-q", "--detach", td + "/new", "HEAD"])
            clean = True
            for f in files:
                base = subprocess.check_output(["git", "-C", "/repo", "show", f"{old}:{f}"])
                open(td + "/base", "wb").write(base)
                m = subprocess.run(["git", "merge-file", "-p", os.path.join(td, "new", f), td + "/base", os.path.join(td, "old", f)], capture_output=True)
                if m.returncode != 0:
                    clean = False
                    print(patch, "CONFLICT in", f)
                    break
                open(os.path.join(td, "new", f), "wb").write(m.stdout)
            if clean:
                d = subprocess.check_output(["git", "-C", td + "/new", "diff"], text=True)
                open(patch, "w").write(d)
                print(patch, "ported")
        finally:
            subprocess.run(["git", "-C", "/repo", "worktree", "remove", "--force", td + "/old"], capture_output=True)
            subprocess.run(["git", "-C", "/repo", "worktree", "remove", "--force", td + "/new"], capture_output=True)
subprocess.run(["git", "-C", "/repo", "worktree", "prune"])

#!/usr/bin/env python3
"""Confirm candidate seeded changes in scratch worktrees of /repo HEAD and store the kept ones under /verif/seeded/.

For each /tmp/seed/Cxx/seed_out/change_k.diff:
  1. scratch worktree of /repo HEAD (outside /repo and /verif), patch applied (plain, then --3way);
  2. demo_k.py must FAIL with the change, the full suite (minus the 3 always-failing contour_animation tests) must PASS;
  3. patch reverted: demo_k.py must PASS;
  4. the property's check is run against the patched worktree (VERIF_REPO=<worktree>) and its exit code / rules recorded;
  5. worktree removed.
usage: tools/confirm_seeds.py [-j N] [Cxx ...]"""
import concurrent.futures as cf
import glob
import json
import os
import re
import shutil
import subprocess
import sys

ROOT = "/tmp/confirm"
SEEDROOT = os.environ.get("SEED_ROOT", "/tmp/seed")
TAG = os.environ.get("SEED_TAG", "")
PY = "/venv/bin/python"


def sh(cmd, cwd=None, env=None, timeout=1800):
    e = dict(os.environ)
    if env:
        e.update(env)
    r = subprocess.run(cmd, cwd=cwd, env=e, capture_output=True, text=True, timeout=timeout, shell=isinstance(cmd, str))
    return r.returncode, r.stdout + r.stderr


def confirm(diff):
    m = re.search(r"(C\d\d)/seed_out/(?:change|alt_change)_?(\w+)\.diff", diff)
    prop, k = m.group(1), m.group(2)
    sid = f"{prop}-{TAG}{k}"
    d = os.path.dirname(diff)
    demo = os.path.join(d, f"demo_{k}.py") if os.path.exists(os.path.join(d, f"demo_{k}.py")) else os.path.join(d, f"alt_demo_{k}.py")
    meta_src = os.path.join(d, f"meta_{k}.json") if os.path.exists(os.path.join(d, f"meta_{k}.json")) else os.path.join(d, f"alt_meta_{k}.json")
    wt = os.path.join(ROOT, sid)
    res = {"id": sid, "property": prop, "source_patch": diff}
    sh(["git", "-C", "/repo", "worktree", "remove", "--force", wt])
    shutil.rmtree(wt, ignore_errors=True)
    rc, out = sh(["git", "-C", "/repo", "worktree", "add", "--detach", wt, "HEAD"])
    if rc != 0:
        res["status"] = "worktree-failed: " + out[-200:]
        return res
    try:
        rc, out = sh(["git", "apply", diff], cwd=wt)
        if rc != 0:
            rc, out = sh(["git", "apply", "--3way", diff], cwd=wt)
            if rc != 0:
                res["status"] = "does-not-apply"
                res["detail"] = out[-300:]
                return res
            sh(["git", "reset", "-q"], cwd=wt)
        rc, patch = sh(["git", "diff"], cwd=wt)
        res["patch"] = patch
        env = {"PYTHONPATH": os.path.join(wt, "src")}
        shutil.copy(demo, os.path.join(wt, "seed_demo.py"))
        rc_demo_bad, out1 = sh([PY, "-m", "pytest", "-q", "-p", "no:cacheprovider", "--no-cov", "-x", "seed_demo.py"], cwd=wt, env=env)
        res["demo_with_change"] = "fails" if rc_demo_bad != 0 else "PASSES"
        res["demo_with_change_tail"] = out1.strip().splitlines()[-1] if out1.strip() else ""
        rc_suite, out2 = sh([PY, "-m", "pytest", "-q", "-p", "no:cacheprovider", "--no-cov", "-k", "not contour_animation", "tests"], cwd=wt, env=env, timeout=3000)
        tail = [l for l in out2.strip().splitlines() if "passed" in l or "failed" in l or "error" in l.lower()]
        res["suite_with_change"] = tail[-1] if tail else out2[-200:]
        res["suite_passes"] = rc_suite == 0
        # the property's check against the patched tree
        rc_chk, out3 = sh(["/verif/check", prop, "--no-write"], cwd="/verif", env={"VERIF_REPO": wt})
        res["check_exit"] = rc_chk
        res["check_rules"] = sorted({l.split()[0] for l in out3.splitlines() if l.startswith("  R-") or l.startswith("  G-")})
        res["check_lines"] = [l[:300] for l in out3.splitlines() if l.startswith(("  R-", "UNDECIDED", "ANALYSIS-ERROR"))][:4]
        sh(["git", "checkout", "--", "."], cwd=wt)
        rc_demo_ok, out4 = sh([PY, "-m", "pytest", "-q", "-p", "no:cacheprovider", "--no-cov", "seed_demo.py"], cwd=wt, env=env)
        res["demo_without_change"] = "passes" if rc_demo_ok == 0 else "FAILS"
        res["demo_without_change_tail"] = out4.strip().splitlines()[-1] if out4.strip() else ""
        ok = rc_demo_bad != 0 and rc_suite == 0 and rc_demo_ok == 0
        res["status"] = "confirmed" if ok else "rejected"
        if ok:
            dst = os.path.join("/verif/seeded", sid)
            os.makedirs(dst, exist_ok=True)
            with open(os.path.join(dst, "patch.diff"), "w") as fh:
                fh.write(patch)
            shutil.copy(demo, os.path.join(dst, "demo.py"))
            meta = {}
            try:
                meta = json.load(open(meta_src))
            except Exception:
                pass
            json.dump({
                "id": sid, "property": prop,
                "summary": meta.get("summary", ""), "why_breaks": meta.get("why_breaks", ""),
                "needs_to_manifest": meta.get("needs_to_manifest", ""),
                "origin": "written by an independent sub-agent that saw only the property text and a scratch worktree",
                "what_i_ran": [
                    "git worktree add --detach /tmp/confirm/<id> HEAD (of /repo, incl. the fix: commits); git apply patch.diff",
                    "PYTHONPATH=<wt>/src pytest demo.py  -> " + res["demo_with_change_tail"],
                    "PYTHONPATH=<wt>/src pytest -k 'not contour_animation' tests -> " + res["suite_with_change"],
                    "git checkout -- . ; pytest demo.py -> " + res["demo_without_change_tail"],
                    f"VERIF_REPO=<wt> ./check {prop} -> exit {rc_chk}, rules {res['check_rules']}",
                ],
                "check_exit_on_patched_tree": rc_chk, "rules_reporting": res["check_rules"],
            }, open(os.path.join(dst, "meta.json"), "w"), indent=1)
    finally:
        sh(["git", "-C", "/repo", "worktree", "remove", "--force", wt])
        shutil.rmtree(wt, ignore_errors=True)
    return res


def main():
    args = sys.argv[1:]
    j = 4
    if args and args[0] == "-j":
        j = int(args[1])
        args = args[2:]
    diffs = []
    for p in sorted(glob.glob(SEEDROOT + "/C??/seed_out/*.diff")):
        b = os.path.basename(p)
        if not re.match(r"(alt_)?change_\w+\.diff$", b):
            continue
        if args and not any(a in p for a in args):
            continue
        diffs.append(p)
    os.makedirs(ROOT, exist_ok=True)
    results = []
    with cf.ThreadPoolExecutor(max_workers=j) as ex:
        for r in ex.map(confirm, diffs):
            results.append(r)
            print(r["id"], r["status"], "check_exit=", r.get("check_exit"), r.get("check_rules"), r.get("suite_with_change", ""), flush=True)
    json.dump(results, open("/tmp/confirm/results.json", "w"), indent=1)


if __name__ == "__main__":
    main()
